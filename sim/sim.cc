// dsim core: baton scheduler over pooled OS threads, simulated pthread objects, virtual clocks,
// choice stream (record / replay), event log hashing. See sim.h and /verif/DESIGN.md §4.
#include "sim.h"

#include <atomic>
#include <algorithm>
#include <unordered_map>
#include <string.h>
#include <stdio.h>
#include <stdlib.h>
#include <errno.h>
#include <unistd.h>
#include <pthread.h>
#include <time.h>
#include <limits.h>
#include <sys/syscall.h>
#include <linux/futex.h>

extern "C" {
int __real_pthread_create(pthread_t *, const pthread_attr_t *, void *(*)(void *), void *);
int __real_pthread_join(pthread_t, void **);
int __real_pthread_detach(pthread_t);
int __real_pthread_mutex_init(pthread_mutex_t *, const pthread_mutexattr_t *);
int __real_pthread_mutex_destroy(pthread_mutex_t *);
int __real_pthread_mutex_lock(pthread_mutex_t *);
int __real_pthread_mutex_trylock(pthread_mutex_t *);
int __real_pthread_mutex_unlock(pthread_mutex_t *);
int __real_pthread_cond_init(pthread_cond_t *, const pthread_condattr_t *);
int __real_pthread_cond_destroy(pthread_cond_t *);
int __real_pthread_cond_wait(pthread_cond_t *, pthread_mutex_t *);
int __real_pthread_cond_timedwait(pthread_cond_t *, pthread_mutex_t *, const struct timespec *);
int __real_pthread_cond_signal(pthread_cond_t *);
int __real_pthread_cond_broadcast(pthread_cond_t *);
int __real_pthread_attr_setaffinity_np(pthread_attr_t *, size_t, const cpu_set_t *);
int __real_pthread_attr_init(pthread_attr_t *);
int __real_pthread_attr_setstacksize(pthread_attr_t *, size_t);
int __real_pthread_attr_getstacksize(const pthread_attr_t *, size_t *);
int __real_pthread_setname_np(pthread_t, const char *);
int __real_clock_gettime(clockid_t, struct timespec *);
int __real_nanosleep(const struct timespec *, struct timespec *);
int __real_posix_memalign(void **, size_t, size_t);
void __real_free(void *);
}

extern "C" int dsim_flavour_b __attribute__((weak));

namespace sim {

// ------------------------------------------------------------------ low level
static inline void futex_wait(std::atomic<int> *w, int val) {
    syscall(SYS_futex, (int *)w, FUTEX_WAIT_PRIVATE, val, nullptr, nullptr, 0);
}
static inline void futex_wake(std::atomic<int> *w) {
    syscall(SYS_futex, (int *)w, FUTEX_WAKE_PRIVATE, 1, nullptr, nullptr, 0);
}

enum TState { TS_FREE = 0, TS_READY, TS_RUNNING, TS_BLOCKED, TS_DONE };
enum WaitKind { W_NONE = 0, W_MUTEX, W_COND, W_JOIN, W_SLEEP, W_GATE };
enum WakeReason { WR_NONE = 0, WR_SIGNAL, WR_SPURIOUS, WR_TIMEOUT, WR_OTHER };
enum { CLK_BOOT = 0, CLK_REAL = 1 };

struct Slot { // one per OS thread
    std::atomic<int> go{0};
    pthread_t os_handle;
    int bound = -1; // sim tid
    bool in_use = false;
    bool os_pending = false; // its OS thread was created joinable and has been neither joined nor detached yet (keeps the pthread_t unique, as for a real unjoined thread)
    char pad[64];
};

struct SimThread {
    int id = -1;
    int state = TS_FREE;
    Slot *slot = nullptr;
    void *(*fn)(void *) = nullptr;
    void *arg = nullptr;
    bool detached = false, joined = false;
    int joiner = -1;
    int wait_kind = W_NONE;
    const void *wait_obj = nullptr;
    bool has_deadline = false;
    int dl_clock = CLK_BOOT;
    uint64_t deadline = 0;
    int wake_reason = WR_NONE;
    uint64_t prio = 0;
    uint64_t last_run_step = 0;
    uint32_t access_countdown = 0;            // flavour B: instrumented accesses until the next decision point
    int create_fail_n = 0, create_fail_err = 0; // armed per calling thread
    int mutex_init_fail_n = 0, mutex_init_fail_err = 0;
    int aff_fail_n = 0, aff_fail_err = 0;
    int attr_fail_which = 0, attr_fail_err = 0;
};

struct MutexS { int owner = -1; int idx; };
struct CondS { std::vector<int> waiters; int idx; };
struct ObjS { int idx; uint64_t h = 0; uint32_t tmask = 0; };

static const int MAX_THREADS = 48;

struct Global {
    bool run_active = false;
    Plan plan;
    SimThread th[MAX_THREADS];
    int nthreads = 0;
    int current = -1;
    // clocks
    uint64_t boot = 0;
    int64_t real_off = 0;
    uint64_t boot0 = 0;
    uint64_t cpu_cost = 100;
    // strategy
    int strat = 0;
    double p_switch = 0.3;
    int starve_tid = -1;
    std::vector<uint64_t> pct_points;
    uint64_t pct_low = 0;
    double p_spurious = 0, p_stall = 0, p_clockjump = 0;
    double p_clockfail_boot = 0; // CLOCK_BOOTTIME/MONOTONIC reads fail (EINVAL): only harnesses whose code is documented to tolerate it
    uint32_t access_mean = 0; // flavour B
    int backtrace_mode = 0;
    uint64_t bt_ctr = 0; // backtrace mode 5: calls so far in this run
    uint64_t soft_budget = 0, hard_budget = 0;
    bool tail = false;
    uint64_t steps = 0;
    // choice stream
    Rng rng{0};
    Rng tail_rng{0};
    bool replay = false;
    std::vector<uint32_t> replay_vals;
    uint64_t choice_idx = 0;
    std::vector<std::pair<uint32_t, uint32_t>> rec;
    uint64_t choice_hash = 0;
    // tables
    std::unordered_map<const void *, MutexS> mutexes;
    std::unordered_map<const void *, CondS> conds;
    std::unordered_map<const void *, ObjS> objs;
    std::vector<const void *> cond_order; // conds in first-use order (iteration never depends on addresses)
    std::vector<std::vector<int>> gate_waiters_dummy;
    // event log
    uint64_t seq = 0;
    uint64_t ev_hash = 0;
    std::vector<Event> ring;
    size_t ring_pos = 0;
    bool trace = false;
    std::vector<Event> full;
    Stats stats;
    observer_fn obs = nullptr;
    void *obs_ud = nullptr;
    // fault arming
    int pushref_mode = 0;
    size_t default_stack = 0;
    double pushref_p = 0;
    bool pushref_next = false;
    // pages
    std::vector<PageInfo> pages;
    std::unordered_map<void *, size_t> page_pos; // page address -> index in pages
    uint64_t pages_total = 0;
    bool recycle = false;
    std::vector<void *> pool;      // freed by the code under test, kept
    std::vector<void *> pool_taken; // handed to the simulated allocator; really freed at the next begin()
};
static Global G;
static Slot *g_slots = nullptr;
static int g_nslots = 0;
static __thread SimThread *tl_self = nullptr;
static __thread Slot *tl_slot = nullptr;
static violation_sink_fn g_sink = nullptr;
static bool g_trace_default = false;
static const size_t RING = 400;

static const char *kPointNames[] = {"?", "mutex_lock", "mutex_trylock", "mutex_unlock", "mutex_init", "mutex_destroy",
    "cond_wait", "cond_timedwait", "cond_signal", "cond_broadcast", "cond_init", "cond_destroy", "cond_wake",
    "thread_create", "thread_join", "thread_detach", "thread_start", "thread_exit", "once", "atomic", "clock", "sleep",
    "yield", "gate_wait", "gate_notify", "access", "harness", "fault", "clock_read"};
const char *point_kind_name(int k) { return (k > 0 && k < PK__COUNT) ? kPointNames[k] : "?"; }

bool active() { return tl_self != nullptr && G.run_active; }
int self() { return tl_self ? tl_self->id : -1; }
int thread_count() { return G.nthreads; }
bool thread_done(int tid) { return tid >= 0 && tid < G.nthreads && G.th[tid].state == TS_DONE; }
uint64_t now_boot() { return G.boot; }
uint64_t now_real() { return (uint64_t)((int64_t)G.boot + G.real_off); }
uint64_t seq() { return G.seq; }
uint64_t steps() { return G.steps; }
uint64_t current_event_hash() { return G.ev_hash; }
Rng &sched_rng() { return G.rng; }
void set_observer(observer_fn fn, void *ud) { G.obs = fn; G.obs_ud = ud; }
void set_violation_sink(violation_sink_fn fn) { g_sink = fn; }
void set_trace(bool on) { g_trace_default = on; }
const std::vector<Event> &full_trace() { return G.full; }
void probe(const char *name, uint64_t n) { G.stats.probes[name] += n; }
void fault_fired(const char *name) { G.stats.faults[name] += 1; }

const std::vector<Event> &recent_events() {
    static std::vector<Event> out;
    out.clear();
    if (G.ring.size() < RING) { out = G.ring; return out; }
    for (size_t i = 0; i < RING; i++) out.push_back(G.ring[(G.ring_pos + i) % RING]);
    return out;
}
std::vector<std::pair<uint32_t, uint32_t>> recorded_choices(uint64_t *len) {
    if (len) *len = G.choice_idx;
    return G.rec;
}

static int obj_index(const void *p) {
    if (!p) return -1;
    auto it = G.objs.find(p);
    if (it != G.objs.end()) return it->second.idx;
    ObjS o; o.idx = (int)G.objs.size();
    G.objs.emplace(p, o);
    return o.idx;
}

static void log_event(int kind, const void *obj, int64_t result) {
    Event e;
    e.seq = ++G.seq;
    e.tid = tl_self ? tl_self->id : -1;
    e.kind = kind;
    e.obj = -1;
    if (obj) {
        auto it = G.objs.find(obj);
        if (it == G.objs.end()) { ObjS o; o.idx = (int)G.objs.size(); it = G.objs.emplace(obj, o).first; }
        e.obj = it->second.idx;
        if (kind != PK_ACCESS && kind != PK_CLOCK) {
            it->second.h = mix64(it->second.h, (uint64_t)(e.tid + 1) * 131 + (uint64_t)kind);
            if (e.tid >= 0 && e.tid < 32) it->second.tmask |= (1u << e.tid);
        }
    }
    e.result = result;
    e.vtime = G.boot;
    uint64_t h = G.ev_hash;
    h = mix64(h, e.seq * 1315423911ull + (uint64_t)(e.tid + 2));
    h = mix64(h, ((uint64_t)e.kind << 32) ^ (uint64_t)(uint32_t)e.obj);
    h = mix64(h, (uint64_t)e.result);
    h = mix64(h, e.vtime);
    G.ev_hash = h;
    if (G.ring.size() < RING) G.ring.push_back(e);
    else { G.ring[G.ring_pos] = e; G.ring_pos = (G.ring_pos + 1) % RING; }
    if (G.trace) G.full.push_back(e);
    if (G.obs) G.obs(e, G.obs_ud);
}
void note(int kind, const void *obj, int64_t result) {
    if (!active()) return;
    log_event(kind, obj, result);
}

std::string describe_state() {
    std::string s;
    char b[256];
    static const char *st[] = {"free", "ready", "running", "blocked", "done"};
    static const char *wk[] = {"-", "mutex", "cond", "join", "sleep", "gate"};
    for (int i = 0; i < G.nthreads; i++) {
        SimThread &t = G.th[i];
        int oi = -1;
        if (t.wait_obj) { auto it = G.objs.find(t.wait_obj); if (it != G.objs.end()) oi = it->second.idx; }
        int owner = -1;
        if (t.state == TS_BLOCKED && t.wait_kind == W_MUTEX) { auto it = G.mutexes.find(t.wait_obj); if (it != G.mutexes.end()) owner = it->second.owner; }
        snprintf(b, sizeof b, "T%d:%s", i, st[t.state]);
        s += b;
        if (t.state == TS_BLOCKED) {
            snprintf(b, sizeof b, "(%s obj%d%s", wk[t.wait_kind], oi, t.has_deadline ? " timed" : "");
            s += b;
            if (owner >= 0) { snprintf(b, sizeof b, " owner=T%d", owner); s += b; }
            if (t.wait_kind == W_JOIN) { snprintf(b, sizeof b, " target=T%d", (int)(intptr_t)t.wait_obj - 1); s += b; }
            s += ")";
        }
        s += " ";
    }
    return s;
}

[[noreturn]] void violation(const char *sig, const char *fmt, ...) {
    char msg[4096];
    va_list ap;
    va_start(ap, fmt);
    vsnprintf(msg, sizeof msg, fmt, ap);
    va_end(ap);
    if (g_sink) g_sink(sig, msg);
    fprintf(stdout, "VIOL sig=%s msg=%s\n", sig, msg);
    fflush(stdout);
    _exit(3);
}

// ------------------------------------------------------------------ choice stream
uint32_t choose(int kind, uint32_t n, uint32_t drawn) {
    uint64_t idx = G.choice_idx++;
    uint32_t v;
    if (G.replay) {
        v = idx < G.replay_vals.size() ? G.replay_vals[idx] : 0;
        if (v >= n) v = 0;
    } else {
        v = drawn < n ? drawn : 0;
    }
    if (v) G.rec.emplace_back((uint32_t)idx, v);
    G.choice_hash = mix64(G.choice_hash, ((uint64_t)kind << 32) | v);
    G.stats.choices++;
    return v;
}
bool coin(int kind, double p) {
    if (p <= 0) return false; // a disabled coin consumes no stream slot (p comes from the plan, same in replay)
    uint32_t d = (!G.replay && G.rng.chance(p)) ? 1 : 0;
    return choose(kind, 2, d) != 0;
}

// ------------------------------------------------------------------ scheduling
static void hand_to(SimThread *next) {
    G.current = next->id;
    next->state = TS_RUNNING;
    next->last_run_step = G.steps;
    Slot *s = next->slot;
    s->go.store(1, std::memory_order_release);
    futex_wake(&s->go);
}
static void wait_for_baton(Slot *s) {
    while (s->go.load(std::memory_order_acquire) == 0) futex_wait(&s->go, 0);
    s->go.store(0, std::memory_order_relaxed);
}

static uint64_t clock_now(int c) { return c == CLK_BOOT ? G.boot : now_real(); }

static void remove_cond_waiter(SimThread &t) {
    auto it = G.conds.find(t.wait_obj);
    if (it == G.conds.end()) return;
    auto &w = it->second.waiters;
    w.erase(std::remove(w.begin(), w.end(), t.id), w.end());
}

static void make_ready(SimThread &t, int reason) {
    t.state = TS_READY;
    t.wake_reason = reason;
    t.has_deadline = false;
}

static void wake_expired() {
    for (int i = 0; i < G.nthreads; i++) {
        SimThread &t = G.th[i];
        if (t.state == TS_BLOCKED && t.has_deadline && clock_now(t.dl_clock) >= t.deadline) {
            if (t.wait_kind == W_COND) remove_cond_waiter(t);
            make_ready(t, WR_TIMEOUT);
        }
    }
}

// returns thread to run next. allow_self: the caller can continue.
static SimThread *choose_next(bool allow_self) {
    SimThread *me = tl_self;
    for (;;) {
        wake_expired();
        int cand[MAX_THREADS], nc = 0;
        for (int i = 0; i < G.nthreads; i++) {
            SimThread &t = G.th[i];
            if (t.state == TS_READY || (allow_self && &t == me)) cand[nc++] = i;
        }
        if (nc == 0) {
            // advance virtual time to the earliest deadline
            uint64_t best = UINT64_MAX;
            for (int i = 0; i < G.nthreads; i++) {
                SimThread &t = G.th[i];
                if (t.state == TS_BLOCKED && t.has_deadline) {
                    uint64_t now = clock_now(t.dl_clock);
                    uint64_t rem = t.deadline > now ? t.deadline - now : 0;
                    if (rem < best) best = rem;
                }
            }
            if (best == UINT64_MAX) {
                std::string st = describe_state();
                violation("deadlock", "no runnable thread and no pending deadline: %s", st.c_str());
            }
            G.boot += best;
            G.stats.probes["time_jump"]++;
            continue;
        }
        int dflt = (allow_self && me) ? me->id : cand[0];
        int pick = dflt;
        if (nc > 1 && G.tail) {
            // Fair tail: uniformly random among the candidates, from a generator of its own (seeded by the plan, never
            // recorded: it consumes no choice, so search and replay behave identically). Strict round-robin is not fair
            // enough here: it can phase-lock with a polling loop so that a third thread always gets its turn while the
            // mutex it needs is held (seen with two concurrent join-all callers), which is an artefact, not a property
            // of the code under test.
            pick = cand[G.tail_rng.below(nc)];
        } else if (nc > 1 && G.strat == 4) {
            uint64_t best = UINT64_MAX;
            for (int k = 0; k < nc; k++) {
                uint64_t l = G.th[cand[k]].last_run_step;
                if (me && cand[k] == me->id) l = G.steps; // the current thread ran just now
                if (l < best) { best = l; pick = cand[k]; }
            }
        } else if (nc > 1) {
            uint32_t drawn = 0;
            if (!G.replay) {
                int want = dflt;
                if (G.strat == 0) {
                    want = cand[G.rng.below(nc)];
                } else if (G.strat == 1) {
                    if (!(allow_self && me) || G.rng.chance(G.p_switch)) want = cand[G.rng.below(nc)];
                } else if (G.strat == 2) {
                    uint64_t bp = 0; want = cand[0];
                    for (int k = 0; k < nc; k++) if (G.th[cand[k]].prio >= bp) { bp = G.th[cand[k]].prio; want = cand[k]; }
                } else if (G.strat == 3) {
                    int oth[MAX_THREADS], no = 0;
                    for (int k = 0; k < nc; k++) if (cand[k] != G.starve_tid) oth[no++] = cand[k];
                    if (no == 0) want = cand[0];
                    else if (allow_self && me && me->id != G.starve_tid && !G.rng.chance(G.p_switch)) want = me->id;
                    else want = oth[G.rng.below(no)];
                }
                drawn = (want == dflt) ? 0 : (uint32_t)(want + 1);
            }
            uint32_t v = choose(CK_SCHED, MAX_THREADS + 1, drawn);
            if (v) {
                int tid = (int)v - 1;
                bool ok = false;
                for (int k = 0; k < nc; k++) if (cand[k] == tid) ok = true;
                if (ok) pick = tid;
            }
        }
        return &G.th[pick];
    }
}

static void switch_to(SimThread *next) {
    SimThread *me = tl_self;
    if (next == me) { me->state = TS_RUNNING; return; }
    G.stats.switches++;
    hand_to(next);
    wait_for_baton(me->slot);
}

static void check_budget() {
    G.steps++;
    if (!G.tail && G.soft_budget && G.steps > G.soft_budget) {
        G.tail = true;
        G.stats.probes["tail_mode"]++;
    }
    if (G.tail && (G.steps & 1023) == 0 && G.cpu_cost < 1000000000000ull) {
        // In the fair tail every step costs more and more virtual time, so that a thread that legitimately polls
        // (e.g. the thread scheduler with a task time that does not fit a positive int64 delay) cannot keep
        // sleepers and timed waits from ever expiring. CPU speed is not something any property depends on.
        G.cpu_cost *= 2;
    }
    if (G.hard_budget && G.steps > G.hard_budget) {
        std::string st = describe_state();
        violation("liveness:budget", "step budget %llu exhausted under fair scheduling with faults off: %s",
                  (unsigned long long)G.hard_budget, st.c_str());
    }
}

static void sleep_internal(uint64_t ns);

// the decision point
static void point(int kind, const void *obj, int64_t result) {
    SimThread *me = tl_self;
    check_budget();
    G.stats.points++;
    G.boot += G.cpu_cost;
    log_event(kind, obj, result);
    if (G.strat == 2 && !G.tail && !G.pct_points.empty() && !G.replay) {
        // PCT priority change point
        while (!G.pct_points.empty() && G.pct_points.back() <= G.steps) {
            G.pct_points.pop_back();
            me->prio = G.pct_low--;
        }
    }
    if (!G.tail) {
        if (G.p_spurious > 0) {
            // spurious wake-up of one condition-variable waiter
            int w[MAX_THREADS], nw = 0;
            for (int i = 0; i < G.nthreads; i++)
                if (G.th[i].state == TS_BLOCKED && G.th[i].wait_kind == W_COND) w[nw++] = i;
            if (nw > 0) {
                uint32_t d = 0;
                if (!G.replay && G.rng.chance(G.p_spurious)) d = 1 + (uint32_t)G.rng.below(nw);
                uint32_t v = choose(CK_SPURIOUS, MAX_THREADS + 1, d);
                if (v && (int)v <= nw) {
                    SimThread &t = G.th[w[v - 1]];
                    remove_cond_waiter(t);
                    make_ready(t, WR_SPURIOUS);
                    fault_fired("spurious_wakeup");
                    log_event(PK_FAULT, t.wait_obj, 1);
                }
            }
        }
        if (G.p_clockjump > 0) {
            uint32_t d = 0;
            if (!G.replay && G.rng.chance(G.p_clockjump)) d = 1 + (uint32_t)G.rng.below(6);
            uint32_t v = choose(CK_CLOCKJUMP, 7, d);
            if (v) {
                static const int64_t jumps[] = {0, 1000000000ll, -1000000000ll, 40000000000ll, -40000000000ll,
                                                3600000000000ll, -3600000000000ll};
                G.real_off += jumps[v];
                fault_fired(jumps[v] > 0 ? "realtime_step_forward" : "realtime_step_back");
                log_event(PK_FAULT, nullptr, 100 + v);
            }
        }
        if (G.p_stall > 0) {
            uint32_t d = 0;
            if (!G.replay && G.rng.chance(G.p_stall)) d = 1 + (uint32_t)G.rng.below(5);
            uint32_t v = choose(CK_STALL, 6, d);
            if (v) {
                static const uint64_t dur[] = {0, 1000000ull, 100000000ull, 1000000000ull, 35000000000ull, 60000000000ull};
                fault_fired("thread_stall");
                log_event(PK_FAULT, nullptr, 200 + v);
                sleep_internal(dur[v]);
                return;
            }
        }
    }
    SimThread *next = choose_next(true);
    if (next != me) {
        G.stats.preemptions++;
        me->state = TS_READY;
        switch_to(next);
    }
}

static void block_self(int wait_kind, const void *obj, bool has_deadline, int dl_clock, uint64_t deadline) {
    SimThread *me = tl_self;
    me->state = TS_BLOCKED;
    me->wait_kind = wait_kind;
    me->wait_obj = obj;
    me->has_deadline = has_deadline;
    me->dl_clock = dl_clock;
    me->deadline = deadline;
    me->wake_reason = WR_NONE;
    SimThread *next = choose_next(false);
    switch_to(next);
    me->wait_kind = W_NONE;
    me->wait_obj = nullptr;
}

static void sleep_internal(uint64_t ns) {
    block_self(W_SLEEP, nullptr, true, CLK_BOOT, G.boot + ns);
}

void yield(int kind, const void *obj, int64_t result) {
    if (!active()) return;
    point(kind, obj, result);
}
void sleep_ns(uint64_t ns) {
    if (!active()) return;
    point(PK_SLEEP, nullptr, (int64_t)ns);
    sleep_internal(ns);
}

void Gate::wait() {
    if (!active()) return;
    log_event(PK_GATE_WAIT, this, 0);
    check_budget();
    block_self(W_GATE, this, false, 0, 0);
}
void Gate::notify_all() {
    if (!active()) return;
    for (int i = 0; i < G.nthreads; i++) {
        SimThread &t = G.th[i];
        if (t.state == TS_BLOCKED && t.wait_kind == W_GATE && t.wait_obj == this) make_ready(t, WR_OTHER);
    }
}

// ------------------------------------------------------------------ run control
static double permille(const Plan &p, const char *k, double dflt) {
    auto it = p.cfg.find(k);
    return it == p.cfg.end() ? dflt : (double)it->second / 1000000.0;
}

static void (*g_warmup)(void) = nullptr;
void set_thread_warmup(void (*fn)(void)) { g_warmup = fn; }

// Every simulated thread runs on an OS thread of its own, created when the code under test creates the thread and gone when its
// function returns: thread-local storage starts from its initial image, exactly as for a real new thread (OS threads used to be
// pooled and re-used across simulated threads and runs, which let thread-locals of the code under test leak from one simulated
// thread into a later one). Which thread runs is still decided by the baton alone.
static std::atomic<uint64_t> g_os_threads{0};
uint64_t os_threads_created() { return g_os_threads.load(); }

static void *slot_entry(void *a) {
    Slot *s = (Slot *)a;
    tl_slot = s;
    wait_for_baton(s);
    SimThread *t = &G.th[s->bound];
    tl_self = t;
    log_event(PK_THREAD_START, nullptr, t->id);
    t->fn(t->arg);
    // thread exit
    log_event(PK_THREAD_EXIT, nullptr, t->id);
    t->state = TS_DONE;
    if (t->joiner >= 0) make_ready(G.th[t->joiner], WR_OTHER);
    if (t->detached) { s->in_use = false; }
    SimThread *next = choose_next(false);
    tl_self = nullptr;
    G.stats.switches++;
    hand_to(next); // nothing of the simulator is touched after this line
    return nullptr;
}

static void start_os_thread(Slot *s, size_t stack_size) {
    pthread_attr_t at; // the attribute calls are interposed too (fault injection): use the real ones
    __real_pthread_attr_init(&at);
    __real_pthread_attr_setstacksize(&at, stack_size);
    int rc = 0;
    for (int attempt = 0; attempt < 200; attempt++) { // earlier threads may still be on their way out
        rc = __real_pthread_create(&s->os_handle, &at, slot_entry, s);
        if (rc != EAGAIN) break;
        usleep(1000);
    }
    pthread_attr_destroy(&at);
    if (rc) { fprintf(stderr, "dsim: cannot create OS thread: %d\n", rc); _exit(2); }
    s->os_pending = true;
    g_os_threads++;
}

void init_process(int max_threads) {
    if (g_warmup) g_warmup();
    g_nslots = max_threads + 1;
    g_slots = new Slot[g_nslots];
    g_slots[0].os_handle = pthread_self();
    g_slots[0].in_use = true;
}

void begin(const Plan &plan) {
    // reset
    G.run_active = false;
    G.plan = plan;
    for (int i = 0; i < MAX_THREADS; i++) G.th[i] = SimThread();
    for (int i = 1; i < g_nslots; i++) {
        if (g_slots[i].os_pending) { __real_pthread_join(g_slots[i].os_handle, nullptr); g_slots[i].os_pending = false; } // never joined by the previous run
        g_slots[i].in_use = false; g_slots[i].bound = -1;
    }
    G.nthreads = 1;
    G.mutexes.clear(); G.conds.clear(); G.objs.clear(); G.cond_order.clear();
    G.seq = 0; G.ev_hash = 0; G.ring.clear(); G.ring_pos = 0; G.full.clear();
    G.trace = g_trace_default;
    G.stats = Stats();
    G.steps = 0; G.tail = false;
    G.choice_idx = 0; G.rec.clear(); G.choice_hash = 0;
    G.pushref_mode = 0; G.pushref_next = false; G.default_stack = 0;
    G.pages.clear(); G.page_pos.clear(); G.pages_total = 0;
    for (void *q : G.pool) __real_free(q);
    for (void *q : G.pool_taken) __real_free(q);
    G.pool.clear(); G.pool_taken.clear();
    G.recycle = false;
    G.obs = nullptr; G.obs_ud = nullptr;

    uint64_t sseed = (uint64_t)plan.get("sched_seed", (int64_t)plan.seed);
    G.rng = Rng(mix64(sseed, 0x5C4ED));
    G.tail_rng = Rng(mix64(sseed, 0x7A11));
    G.replay = plan.have_choices;
    G.replay_vals.clear();
    if (G.replay) {
        G.replay_vals.assign(plan.choices_len, 0);
        for (auto &c : plan.choices) {
            if (c.first >= G.replay_vals.size()) G.replay_vals.resize(c.first + 1, 0);
            G.replay_vals[c.first] = c.second;
        }
    }
    G.strat = (int)plan.get("strat", 0);
    G.p_switch = permille(plan, "p_switch", 0.3);
    G.starve_tid = (int)plan.get("starve_tid", -1);
    G.p_spurious = permille(plan, "p_spurious", 0);
    G.p_stall = permille(plan, "p_stall", 0);
    G.p_clockjump = permille(plan, "p_clockjump", 0);
    G.p_clockfail_boot = permille(plan, "p_clockfail_boot", 0);
    G.backtrace_mode = (int)plan.get("backtrace_mode", 0);
    G.bt_ctr = 0;
    G.soft_budget = (uint64_t)plan.get("soft_budget", 200000);
    G.hard_budget = (uint64_t)plan.get("hard_budget", 2000000);
    G.cpu_cost = (uint64_t)plan.get("cpu_cost", 100);
    G.boot0 = G.boot = (uint64_t)plan.get("boot0", 5000000000ll);
    G.real_off = plan.get("real_off", 1790000000000000000ll);
    G.pct_points.clear();
    G.pct_low = 1000;
    if (G.strat == 2) {
        int d = (int)plan.get("pct_d", 2);
        uint64_t len = (uint64_t)plan.get("pct_len", 500);
        for (int i = 0; i < d; i++) G.pct_points.push_back(1 + G.rng.below(len));
        std::sort(G.pct_points.rbegin(), G.pct_points.rend());
    }
    G.access_mean = 0;
    if (&dsim_flavour_b && dsim_flavour_b) {
        static const uint32_t means[] = {4, 15, 60, 250};
        uint32_t d = G.replay ? 0 : (uint32_t)G.rng.below(4);
        G.access_mean = means[choose(CK_MISC, 4, d)];
    }
    SimThread &t0 = G.th[0];
    t0.id = 0; t0.state = TS_RUNNING; t0.slot = &g_slots[0];
    t0.prio = 2000 + G.rng.below(1000);
    g_slots[0].go.store(0);
    g_slots[0].bound = 0;
    tl_self = &t0;
    tl_slot = &g_slots[0];
    G.current = 0;
    G.run_active = true;
}

int unjoined_threads() {
    int n = 0;
    for (int i = 1; i < G.nthreads; i++) {
        SimThread &t = G.th[i];
        if (t.state != TS_DONE || !(t.joined || t.detached)) n++;
    }
    return n;
}
bool mutex_held_any() {
    for (auto &kv : G.mutexes) if (kv.second.owner >= 0) return true;
    return false;
}

Stats end() {
    // thread 0 only
    for (int i = 1; i < G.nthreads; i++) {
        if (G.th[i].state != TS_DONE) {
            std::string st = describe_state();
            violation("threads-alive-at-end", "simulated thread T%d has not finished when the run ends: %s", i, st.c_str());
        }
    }
    G.stats.event_hash = G.ev_hash;
    G.stats.choice_hash = G.choice_hash;
    G.stats.vtime_ns = G.boot - G.boot0;
    G.stats.threads = (uint32_t)G.nthreads;
    // fingerprint: order-independent combination over objects of their per-object thread sequences
    std::vector<std::pair<int, uint64_t>> v;
    uint32_t shared = 0;
    for (auto &kv : G.objs) {
        if (kv.second.h) v.emplace_back(kv.second.idx, kv.second.h);
        if (__builtin_popcount(kv.second.tmask) >= 2) shared++;
    }
    uint64_t fp = 0;
    for (auto &p : v) fp += mix64((uint64_t)p.first, p.second);
    G.stats.sync_fp = fp;
    G.stats.shared_objs = shared;
    G.run_active = false;
    tl_self = nullptr;
    return G.stats;
}

void set_create_fail(int nth, int err) { if (tl_self) { tl_self->create_fail_n = nth; tl_self->create_fail_err = err; } }
void set_mutex_init_fail(int nth, int err) { if (tl_self) { tl_self->mutex_init_fail_n = nth; tl_self->mutex_init_fail_err = err; } }
void set_affinity_fail(int nth, int err) { if (tl_self) { tl_self->aff_fail_n = nth; tl_self->aff_fail_err = err; } }
void set_default_stack(size_t bytes) { G.default_stack = bytes; }
void set_attr_fail(int which, int err) { if (tl_self) { tl_self->attr_fail_which = which; tl_self->attr_fail_err = err; } }
int backtrace_mode() { return G.run_active ? G.backtrace_mode : 0; }
// Objects without an init/destroy hook (atomics) are identified by address. When the code under test frees memory that came from the real
// heap and later gets the same - or another - address for a new object, whether the two coincide depends on the heap's history, which is
// not part of a run: the harness names the dead range and every object in it is forgotten (a later object there is a new object).
void forget_objects(const void *p, size_t n) {
    if (!G.run_active) return;
    for (auto it = G.objs.begin(); it != G.objs.end();) {
        const uint8_t *a = (const uint8_t *)it->first;
        if (a >= (const uint8_t *)p && a < (const uint8_t *)p + n) {
            it = G.objs.erase(it);
        } else ++it;
    }
}
const std::vector<PageInfo> &live_pages() { return G.pages; }
void set_page_recycling(bool on) { G.recycle = on; }
void *take_recycled_page() {
    if (G.pool.empty()) return nullptr;
    void *q = G.pool.back();
    G.pool.pop_back();
    G.pool_taken.push_back(q);
    return q;
}
size_t recycled_pages() { return G.pool.size(); }
uint64_t pages_allocated_total() { return G.pages_total; }

void set_pushref_mode(int mode, double p) { G.pushref_mode = mode; G.pushref_p = p; }
void set_pushref_next(bool fail) { G.pushref_next = fail; }
bool pushref_should_fail() {
    if (!active()) return false;
    if (G.pushref_mode == 1) {
        if (G.tail) return false;
        bool f = coin(CK_FAULT, G.pushref_p);
        if (f) fault_fired("pushref_fail");
        return f;
    }
    if (G.pushref_mode == 2) {
        bool f = G.pushref_next;
        G.pushref_next = false;
        if (f) fault_fired("pushref_fail");
        return f;
    }
    return false;
}

// ------------------------------------------------------------------ simulated pthread objects
static MutexS &get_mutex(const void *m) {
    auto it = G.mutexes.find(m);
    if (it != G.mutexes.end()) return it->second;
    MutexS s; s.idx = obj_index(m);
    return G.mutexes.emplace(m, s).first->second;
}
static CondS &get_cond(const void *c) {
    auto it = G.conds.find(c);
    if (it != G.conds.end()) return it->second;
    CondS s; s.idx = obj_index(c);
    G.cond_order.push_back(c);
    return G.conds.emplace(c, s).first->second;
}
static void wake_mutex_waiters(const void *m) {
    for (int i = 0; i < G.nthreads; i++) {
        SimThread &t = G.th[i];
        if (t.state == TS_BLOCKED && t.wait_kind == W_MUTEX && t.wait_obj == m) make_ready(t, WR_OTHER);
    }
}
static void acquire_mutex(const void *m) {
    SimThread *me = tl_self;
    for (;;) {
        MutexS &M = get_mutex(m);
        if (M.owner < 0) { M.owner = me->id; return; }
        if (M.owner == me->id) {
            std::string st = describe_state();
            violation("deadlock:relock", "T%d locks a normal mutex (obj%d) it already holds: %s", me->id, M.idx, st.c_str());
        }
        G.stats.probes["mutex_contended"]++;
        block_self(W_MUTEX, m, false, 0, 0);
    }
}

int mutex_lock(pthread_mutex_t *m) {
    point(PK_MUTEX_LOCK, m, 0);
    acquire_mutex(m);
    return 0;
}
int mutex_trylock(pthread_mutex_t *m) {
    point(PK_MUTEX_TRYLOCK, m, 0);
    MutexS &M = get_mutex(m);
    if (M.owner < 0) { M.owner = tl_self->id; return 0; }
    return EBUSY;
}
int mutex_unlock(pthread_mutex_t *m) {
    MutexS &M = get_mutex(m);
    if (M.owner != tl_self->id) {
        violation("mutex-misuse", "T%d unlocks mutex obj%d owned by T%d", tl_self->id, M.idx, M.owner);
    }
    M.owner = -1;
    wake_mutex_waiters(m);
    point(PK_MUTEX_UNLOCK, m, 0);
    return 0;
}
int mutex_destroy(pthread_mutex_t *m) {
    auto it = G.mutexes.find(m);
    if (it != G.mutexes.end()) {
        if (it->second.owner >= 0)
            violation("mutex-misuse", "T%d destroys locked mutex obj%d (owner T%d)", tl_self->id, it->second.idx, it->second.owner);
        for (int i = 0; i < G.nthreads; i++)
            if (G.th[i].state == TS_BLOCKED && G.th[i].wait_kind == W_MUTEX && G.th[i].wait_obj == m)
                violation("mutex-misuse", "T%d destroys mutex obj%d while T%d waits for it", tl_self->id, it->second.idx, i);
        log_event(PK_MUTEX_DESTROY, m, 0);
        G.mutexes.erase(it);
        G.objs.erase(m); // the address may be reused by a new object
    }
    return 0;
}
int cond_destroy(pthread_cond_t *c) {
    auto it = G.conds.find(c);
    if (it != G.conds.end()) {
        if (!it->second.waiters.empty())
            violation("cond-misuse", "T%d destroys condition variable obj%d with %zu waiter(s)", tl_self->id, it->second.idx,
                      it->second.waiters.size());
        log_event(PK_COND_DESTROY, c, 0);
        G.conds.erase(it);
        G.cond_order.erase(std::remove(G.cond_order.begin(), G.cond_order.end(), (const void *)c), G.cond_order.end());
        G.objs.erase(c);
    }
    return 0;
}
int cond_wait(pthread_cond_t *c, pthread_mutex_t *m, const struct timespec *abs) {
    SimThread *me = tl_self;
    point(abs ? PK_COND_TIMEDWAIT : PK_COND_WAIT, c, 0);
    MutexS &M = get_mutex(m);
    if (M.owner != me->id) violation("cond-misuse", "T%d waits on cond with mutex obj%d it does not hold", me->id, M.idx);
    uint64_t dl = 0;
    if (abs) {
        dl = (uint64_t)abs->tv_sec * 1000000000ull + (uint64_t)abs->tv_nsec;
        if (abs->tv_nsec < 0 || abs->tv_nsec >= 1000000000l) return EINVAL;
    }
    // atomically release the mutex and start waiting
    M.owner = -1;
    wake_mutex_waiters(m);
    get_cond(c).waiters.push_back(me->id);
    block_self(W_COND, c, abs != nullptr, CLK_REAL, dl);
    int reason = me->wake_reason;
    if (reason == WR_TIMEOUT) G.stats.probes["cond_timeout"]++;
    acquire_mutex(m);
    log_event(PK_COND_WAKE, c, reason);
    return reason == WR_TIMEOUT ? ETIMEDOUT : 0;
}
int cond_signal(pthread_cond_t *c, bool all) {
    point(all ? PK_COND_BROADCAST : PK_COND_SIGNAL, c, 0);
    CondS &C = get_cond(c);
    if (C.waiters.empty()) { G.stats.probes["signal_no_waiter"]++; return 0; }
    if (all) {
        for (int tid : C.waiters) make_ready(G.th[tid], WR_SIGNAL);
        C.waiters.clear();
        return 0;
    }
    uint32_t n = (uint32_t)C.waiters.size();
    uint32_t d = (!G.replay && n > 1) ? (uint32_t)G.rng.below(n) : 0;
    uint32_t v = (n > 1) ? choose(CK_SIGNAL, n, d) : 0;
    int tid = C.waiters[v];
    C.waiters.erase(C.waiters.begin() + v);
    make_ready(G.th[tid], WR_SIGNAL);
    if (!C.waiters.empty() && G.p_spurious > 0 && !G.tail) {
        // POSIX: signal unblocks at least one waiter
        uint32_t d2 = (!G.replay && G.rng.chance(G.p_spurious)) ? 1 : 0;
        if (choose(CK_SIGNAL_EXTRA, 2, d2)) {
            int t2 = C.waiters[0];
            C.waiters.erase(C.waiters.begin());
            make_ready(G.th[t2], WR_SPURIOUS);
            fault_fired("signal_wakes_two");
        }
    }
    return 0;
}

int thread_create(pthread_t *out, void *(*fn)(void *), void *arg, size_t stack_size) {
    point(PK_THREAD_CREATE, nullptr, 0);
    if (tl_self->create_fail_n > 0 && --tl_self->create_fail_n == 0) {
        fault_fired("pthread_create_fail");
        log_event(PK_FAULT, nullptr, 300 + tl_self->create_fail_err);
        return tl_self->create_fail_err;
    }
    if (G.nthreads >= MAX_THREADS) violation("sim-limit", "more than %d simulated threads", MAX_THREADS);
    Slot *s = nullptr;
    for (int i = 1; i < g_nslots; i++) if (!g_slots[i].in_use) { s = &g_slots[i]; break; }
    if (!s) violation("sim-limit", "more than %d simulated threads alive at once", g_nslots - 1);
    SimThread &t = G.th[G.nthreads];
    t = SimThread();
    t.id = G.nthreads++;
    t.slot = s;
    t.fn = fn; t.arg = arg;
    t.state = TS_READY;
    t.prio = 2000 + G.rng.below(1000);
    s->in_use = true;
    s->bound = t.id;
    s->go.store(0);
    start_os_thread(s, stack_size);
    *out = s->os_handle;
    log_event(PK_THREAD_CREATE, nullptr, t.id);
    return 0;
}
static SimThread *find_by_handle(pthread_t h) {
    for (int i = G.nthreads - 1; i >= 1; i--) {
        SimThread &t = G.th[i];
        if (t.slot && pthread_equal(t.slot->os_handle, h) && !(t.joined) && !(t.state == TS_DONE && t.detached)) return &t;
    }
    return nullptr;
}
int thread_join(pthread_t h) {
    SimThread *me = tl_self;
    point(PK_THREAD_JOIN, nullptr, 0);
    if (pthread_equal(me->slot->os_handle, h)) { log_event(PK_THREAD_JOIN, nullptr, -EDEADLK); return EDEADLK; }
    SimThread *t = find_by_handle(h);
    if (!t) { log_event(PK_THREAD_JOIN, nullptr, -ESRCH); return ESRCH; }
    if (t->detached || t->joiner >= 0) { log_event(PK_THREAD_JOIN, nullptr, -EINVAL); return EINVAL; }
    t->joiner = me->id;
    while (t->state != TS_DONE) block_self(W_JOIN, (const void *)(intptr_t)(t->id + 1), false, 0, 0);
    t->joined = true;
    if (t->slot->os_pending) { __real_pthread_join(t->slot->os_handle, nullptr); t->slot->os_pending = false; } // it is past its last simulator access
    t->slot->in_use = false;
    log_event(PK_THREAD_JOIN, nullptr, t->id);
    return 0;
}
int thread_detach(pthread_t h) {
    point(PK_THREAD_DETACH, nullptr, 0);
    SimThread *t = nullptr;
    if (pthread_equal(tl_self->slot->os_handle, h)) t = tl_self; else t = find_by_handle(h);
    if (!t) return ESRCH;
    if (t->detached || t->joiner >= 0) return EINVAL;
    t->detached = true;
    if (t->slot->os_pending) { __real_pthread_detach(t->slot->os_handle); t->slot->os_pending = false; }
    if (t->state == TS_DONE) t->slot->in_use = false;
    log_event(PK_THREAD_DETACH, nullptr, t->id);
    return 0;
}

} // namespace sim

// ------------------------------------------------------------------ link-time wrappers
using namespace sim;
extern "C" {

// flavour B: called for every instrumented plain load/store in library code. Sparse: a per-thread countdown, drawn
// through the choice stream, decides which accesses become decision points.
void sim_access_point(const void *addr, int size_and_write) {
    (void)addr;
    if (!sim::active()) return;
    sim::SimThread *me = sim::tl_self;
    if (me->access_countdown > 1) { me->access_countdown--; return; }
    if (sim::G.tail) { me->access_countdown = 64; return; }
    if (me->access_countdown == 1) sim::point(PK_ACCESS, nullptr, size_and_write);
    uint32_t m = sim::G.access_mean ? sim::G.access_mean : 30;
    uint32_t d = sim::G.replay ? 0 : (uint32_t)sim::G.rng.below(2 * m);
    me->access_countdown = 2 + sim::choose(CK_MISC, 4096, d);
}

void sim_atomic_point(const volatile void *addr, int kind) {
    if (!sim::active()) return;
    sim::point(PK_ATOMIC, (const void *)addr, kind);
}

int __wrap_pthread_mutex_init(pthread_mutex_t *m, const pthread_mutexattr_t *a) {
    if (sim::active() && tl_self && tl_self->mutex_init_fail_n > 0 && --tl_self->mutex_init_fail_n == 0) {
        // pthread_mutex_init may fail with EAGAIN / ENOMEM (POSIX): the object stays uninitialised
        fault_fired("pthread_mutex_init_fail");
        log_event(PK_FAULT, m, 400 + tl_self->mutex_init_fail_err);
        return tl_self->mutex_init_fail_err;
    }
    int rc = __real_pthread_mutex_init(m, a);
    if (sim::active()) {
        // a fresh object at this address: forget any stale entry
        G.mutexes.erase(m);
        G.objs.erase(m);
        get_mutex(m);
        log_event(PK_MUTEX_INIT, m, 0);
    }
    return rc;
}
int __wrap_pthread_mutex_destroy(pthread_mutex_t *m) {
    if (sim::active()) sim::mutex_destroy(m);
    return __real_pthread_mutex_destroy(m);
}
int __wrap_pthread_mutex_lock(pthread_mutex_t *m) {
    if (!sim::active()) return __real_pthread_mutex_lock(m);
    return sim::mutex_lock(m);
}
int __wrap_pthread_mutex_trylock(pthread_mutex_t *m) {
    if (!sim::active()) return __real_pthread_mutex_trylock(m);
    return sim::mutex_trylock(m);
}
int __wrap_pthread_mutex_unlock(pthread_mutex_t *m) {
    if (!sim::active()) return __real_pthread_mutex_unlock(m);
    return sim::mutex_unlock(m);
}
int __wrap_pthread_cond_init(pthread_cond_t *c, const pthread_condattr_t *a) {
    int rc = __real_pthread_cond_init(c, a);
    if (sim::active()) {
        G.conds.erase(c);
        G.cond_order.erase(std::remove(G.cond_order.begin(), G.cond_order.end(), (const void *)c), G.cond_order.end());
        G.objs.erase(c);
        get_cond(c);
        log_event(PK_COND_INIT, c, 0);
    }
    return rc;
}
int __wrap_pthread_cond_destroy(pthread_cond_t *c) {
    if (sim::active()) sim::cond_destroy(c);
    return __real_pthread_cond_destroy(c);
}
int __wrap_pthread_cond_wait(pthread_cond_t *c, pthread_mutex_t *m) {
    if (!sim::active()) return __real_pthread_cond_wait(c, m);
    return sim::cond_wait(c, m, nullptr);
}
int __wrap_pthread_cond_timedwait(pthread_cond_t *c, pthread_mutex_t *m, const struct timespec *ts) {
    if (!sim::active()) return __real_pthread_cond_timedwait(c, m, ts);
    return sim::cond_wait(c, m, ts);
}
int __wrap_pthread_cond_signal(pthread_cond_t *c) {
    if (!sim::active()) return __real_pthread_cond_signal(c);
    return sim::cond_signal(c, false);
}
int __wrap_pthread_cond_broadcast(pthread_cond_t *c) {
    if (!sim::active()) return __real_pthread_cond_broadcast(c);
    return sim::cond_signal(c, true);
}
// pthread_once: glibc's own implementation parks a second caller on a futex while the first runs the function - a blocking
// the simulator would not see (the baton holder would sleep in the kernel). Simulated with one internal mutex/condition pair;
// the flag values are glibc's (0 never run, 1 in progress, 2 done), so a flag completed inside a run stays completed outside.
int __real_pthread_once(pthread_once_t *, void (*)(void));
static pthread_mutex_t g_once_mu = PTHREAD_MUTEX_INITIALIZER;
static pthread_cond_t g_once_cv = PTHREAD_COND_INITIALIZER;
int __wrap_pthread_once(pthread_once_t *flag, void (*fn)(void)) {
    if (!sim::active()) return __real_pthread_once(flag, fn);
    volatile int *f = (volatile int *)flag;
    sim::mutex_lock(&g_once_mu);
    while (*f == 1) sim::cond_wait(&g_once_cv, &g_once_mu, nullptr);
    if (*f == 2) {
        sim::mutex_unlock(&g_once_mu);
        return 0;
    }
    *f = 1;
    sim::mutex_unlock(&g_once_mu);
    fn();
    sim::mutex_lock(&g_once_mu);
    *f = 2;
    sim::cond_signal(&g_once_cv, true);
    sim::mutex_unlock(&g_once_mu);
    return 0;
}
int __wrap_pthread_create(pthread_t *t, const pthread_attr_t *a, void *(*fn)(void *), void *arg) {
    if (!sim::active()) return __real_pthread_create(t, a, fn, arg);
    // The stack the code under test asks for is honoured between 64 KiB and 1 MiB (application callbacks run on library threads with
    // whatever stack the library gave the thread); anything smaller gets 1 MiB, because harness and simulator frames run there too.
    size_t want = 0, stack = 1 << 20;
    if (a && __real_pthread_attr_getstacksize(a, &want) == 0 && want >= 65536 && want < stack) stack = (want + 4095) & ~(size_t)4095;
    return sim::thread_create(t, fn, arg, stack);
}
int __wrap_pthread_join(pthread_t t, void **ret) {
    if (!sim::active()) return __real_pthread_join(t, ret);
    if (ret) *ret = nullptr;
    return sim::thread_join(t);
}
int __wrap_pthread_detach(pthread_t t) {
    if (!sim::active()) return __real_pthread_detach(t);
    return sim::thread_detach(t);
}
int __wrap_pthread_attr_setaffinity_np(pthread_attr_t *a, size_t n, const cpu_set_t *s) {
    if (sim::active()) {
        if (tl_self->aff_fail_n > 0 && --tl_self->aff_fail_n == 0) {
            fault_fired("setaffinity_fail");
            log_event(PK_FAULT, nullptr, 400 + tl_self->aff_fail_err);
            return tl_self->aff_fail_err;
        }
        return 0;
    }
    return __real_pthread_attr_setaffinity_np(a, n, s);
}
static int attr_fault(int which) {
    if (!sim::active() || tl_self->attr_fail_which != which) return 0;
    tl_self->attr_fail_which = 0;
    fault_fired(which == 1 ? "pthread_attr_init_fail" : which == 2 ? "pthread_attr_setstacksize_fail" : "pthread_attr_getstacksize_fail");
    log_event(PK_FAULT, nullptr, 600 + which);
    return tl_self->attr_fail_err;
}
int __real_pthread_attr_init(pthread_attr_t *);
int __real_pthread_attr_setstacksize(pthread_attr_t *, size_t);
int __real_pthread_attr_getstacksize(const pthread_attr_t *, size_t *);
int __real_backtrace(void **, int);
int __wrap_pthread_attr_init(pthread_attr_t *a) {
    int e = attr_fault(1);
    if (e) return e;
    e = __real_pthread_attr_init(a);
    if (!e && sim::active() && G.default_stack) __real_pthread_attr_setstacksize(a, G.default_stack); // a system with a small default (musl: 128 KiB)
    return e;
}
int __wrap_pthread_attr_setstacksize(pthread_attr_t *a, size_t n) { int e = attr_fault(2); return e ? e : __real_pthread_attr_setstacksize(a, n); }
int __wrap_pthread_attr_getstacksize(const pthread_attr_t *a, size_t *n) { int e = attr_fault(3); return e ? e : __real_pthread_attr_getstacksize(a, n); }
int __wrap_backtrace(void **buf, int n) {
    int mode = sim::backtrace_mode();
    if (mode == 1) return 0;
    int got = __real_backtrace(buf, n);
    if (mode == 2 && got > 1) got = 1;
    if (mode == 3 && got > 2) got = 2;
    if (mode == 5 && got > 0) { // every call comes from a call site of its own: thousands of distinct stacks in one run
        buf[got > 2 ? 2 : got - 1] = (void *)(uintptr_t)(0x10000000ull + 16 * G.bt_ctr++);
    }
    if (mode == 4 && got > 0) { // a very deep call stack: as many frames as the caller has room for (the real frames, repeated)
        int base = got;
        while (got < n) { buf[got] = buf[got % base]; got++; }
    }
    return got;
}
int __wrap_pthread_setname_np(pthread_t t, const char *name) {
    if (sim::active()) return 0;
    return __real_pthread_setname_np(t, name);
}
int __wrap_clock_gettime(clockid_t id, struct timespec *ts) {
    if (!sim::active()) return __real_clock_gettime(id, ts);
    sim::point(PK_CLOCK, nullptr, (int64_t)id);
    bool rt = (id == CLOCK_REALTIME || id == CLOCK_REALTIME_COARSE);
    if (!rt && G.p_clockfail_boot > 0 && !G.tail && sim::coin(CK_FAULT, G.p_clockfail_boot)) {
        // a kernel / sandbox without this clock id: the call fails, the caller gets no time
        sim::fault_fired("boot_clock_read_fails");
        log_event(PK_FAULT, nullptr, 500);
        errno = EINVAL;
        return -1;
    }
    uint64_t v = rt ? sim::now_real() : sim::now_boot();
    if (rt) log_event(PK_CLOCK_READ, nullptr, (int64_t)v); // the value actually returned (after any preemption at the point above)
    ts->tv_sec = (time_t)(v / 1000000000ull);
    ts->tv_nsec = (long)(v % 1000000000ull);
    return 0;
}
int __wrap_nanosleep(const struct timespec *req, struct timespec *rem) {
    if (!sim::active()) return __real_nanosleep(req, rem);
    uint64_t ns = (uint64_t)req->tv_sec * 1000000000ull + (uint64_t)req->tv_nsec;
    sim::sleep_ns(ns);
    if (rem) { rem->tv_sec = 0; rem->tv_nsec = 0; }
    return 0;
}
int __wrap_posix_memalign(void **out, size_t align, size_t size) {
    if (sim::active() && G.recycle && align == 4096 && size == 4096 && G.pool.size() > 1 && (G.pages_total & 1)) {
        // a real malloc may well return memory that was freed a moment ago, contents intact
        *out = G.pool.front();
        G.pool.erase(G.pool.begin());
        G.page_pos[*out] = G.pages.size();
        G.pages.push_back({*out, size});
        G.pages_total++;
        G.stats.probes["page_memory_reused"]++;
        return 0;
    }
    int rc = __real_posix_memalign(out, align, size);
    if (rc == 0 && sim::active()) {
        G.page_pos[*out] = G.pages.size();
        G.pages.push_back({*out, size});
        G.pages_total++;
    }
    return rc;
}
void __wrap_free(void *p) {
    if (p && G.run_active && !G.pages.empty()) {
        auto it = G.page_pos.find(p); // constant time: runs may hold a million pages
        if (it != G.page_pos.end()) {
            size_t i = it->second;
            bool keep = G.recycle && G.pages[i].size == 4096;
            G.page_pos.erase(it);
            if (i + 1 != G.pages.size()) { G.pages[i] = G.pages.back(); G.page_pos[G.pages[i].p] = i; }
            G.pages.pop_back();
            if (keep) { G.pool.push_back(p); return; }
        }
    }
    __real_free(p);
}

// aws_priority_queue_push_ref: buggify point for the task scheduler's documented fall-back path
struct aws_priority_queue;
struct aws_priority_queue_node;
int __real_aws_priority_queue_push_ref(struct aws_priority_queue *, void *, struct aws_priority_queue_node *);
int aws_raise_error_private(int);
int __wrap_aws_priority_queue_push_ref(struct aws_priority_queue *q, void *item, struct aws_priority_queue_node *n) {
    if (sim::pushref_should_fail()) {
        aws_raise_error_private(1 /* AWS_ERROR_OOM */);
        return -1;
    }
    return __real_aws_priority_queue_push_ref(q, item, n);
}
}
