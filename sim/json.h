// minimal JSON reader/writer (integers kept as int64/uint64; no floats needed by the replay format)
#pragma once
#include <string>
#include <vector>
#include <map>
#include <stdint.h>
#include <stdio.h>
#include <stdlib.h>
#include <string.h>

namespace mj {
struct Value {
    enum T { NUL, BOOL, INT, STR, ARR, OBJ } t = NUL;
    bool b = false;
    int64_t i = 0;
    bool is_unsigned_big = false;
    uint64_t u = 0;
    std::string s;
    std::vector<Value> a;
    std::vector<std::pair<std::string, Value>> o;
    const Value *get(const char *k) const {
        for (auto &kv : o) if (kv.first == k) return &kv.second;
        return nullptr;
    }
    int64_t geti(const char *k, int64_t d = 0) const { const Value *v = get(k); return v && v->t == INT ? v->i : d; }
    uint64_t getu(const char *k, uint64_t d = 0) const { const Value *v = get(k); return v && v->t == INT ? (v->is_unsigned_big ? v->u : (uint64_t)v->i) : d; }
    std::string gets(const char *k, const char *d = "") const { const Value *v = get(k); return v && v->t == STR ? v->s : std::string(d); }
};
struct Parser {
    const char *p, *e;
    bool ok = true;
    explicit Parser(const std::string &s) : p(s.data()), e(s.data() + s.size()) {}
    void ws() { while (p < e && (*p == ' ' || *p == '\n' || *p == '\t' || *p == '\r')) p++; }
    Value parse() {
        Value v;
        ws();
        if (p >= e) { ok = false; return v; }
        if (*p == '{') {
            v.t = Value::OBJ; p++; ws();
            if (p < e && *p == '}') { p++; return v; }
            while (ok) {
                ws();
                Value k = parse();
                if (k.t != Value::STR) { ok = false; break; }
                ws();
                if (p >= e || *p != ':') { ok = false; break; }
                p++;
                Value val = parse();
                v.o.emplace_back(k.s, val);
                ws();
                if (p < e && *p == ',') { p++; continue; }
                if (p < e && *p == '}') { p++; break; }
                ok = false;
            }
        } else if (*p == '[') {
            v.t = Value::ARR; p++; ws();
            if (p < e && *p == ']') { p++; return v; }
            while (ok) {
                v.a.push_back(parse());
                ws();
                if (p < e && *p == ',') { p++; continue; }
                if (p < e && *p == ']') { p++; break; }
                ok = false;
            }
        } else if (*p == '"') {
            v.t = Value::STR; p++;
            while (p < e && *p != '"') {
                if (*p == '\\' && p + 1 < e) {
                    p++;
                    switch (*p) {
                        case 'n': v.s += '\n'; break;
                        case 't': v.s += '\t'; break;
                        case 'r': v.s += '\r'; break;
                        case 'u': { if (p + 4 < e) { char h[5] = {p[1], p[2], p[3], p[4], 0}; v.s += (char)strtol(h, nullptr, 16); p += 4; } break; }
                        default: v.s += *p;
                    }
                    p++;
                } else v.s += *p++;
            }
            if (p < e) p++; else ok = false;
        } else if (*p == 't' && e - p >= 4) { v.t = Value::BOOL; v.b = true; p += 4; }
        else if (*p == 'f' && e - p >= 5) { v.t = Value::BOOL; v.b = false; p += 5; }
        else if (*p == 'n' && e - p >= 4) { v.t = Value::NUL; p += 4; }
        else {
            v.t = Value::INT;
            const char *st = p;
            if (*p == '-') p++;
            while (p < e && ((*p >= '0' && *p <= '9') || *p == '.' || *p == 'e' || *p == 'E' || *p == '+' || *p == '-')) p++;
            std::string num(st, p);
            if (num.empty()) { ok = false; return v; }
            if (num[0] == '-') v.i = strtoll(num.c_str(), nullptr, 10);
            else { v.u = strtoull(num.c_str(), nullptr, 10); v.i = (int64_t)v.u; v.is_unsigned_big = v.u > (uint64_t)INT64_MAX; }
        }
        return v;
    }
};
static inline std::string esc(const std::string &s) {
    std::string o;
    for (unsigned char c : s) {
        if (c == '"' || c == '\\') { o += '\\'; o += (char)c; }
        else if (c == '\n') o += "\\n";
        else if (c == '\t') o += "\\t";
        else if (c == '\r') o += "\\r";
        else if (c < 0x20 || c >= 0x7f) { char b[8]; snprintf(b, sizeof b, "\\u%04x", c); o += b; }
        else o += (char)c;
    }
    return o;
}
} // namespace mj
