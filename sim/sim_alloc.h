// Simulated aws_allocator (DESIGN.md §4.6): guard bands, junk-filled fresh memory, poisoned and
// LIFO-reused freed blocks, seeded move-or-stay realloc, optional vtable entries, live-set accounting.
#pragma once
#include "sim.h"
#include <aws/common/allocator.h>

namespace simalloc {

struct Config {
    bool has_realloc = true;
    bool has_calloc = true;
    double p_reuse = 0.7;     // reuse a freed block of the same class (LIFO) instead of fresh memory
    double p_move = 0.5;      // realloc moves even when it could stay
    uint64_t seed = 1;
    bool yield_points = false;
    bool carve_recycled = false; // place some 513..3500-byte blocks inside pages the code under test freed earlier (sim::take_recycled_page) // decision point inside every allocator call (caller-visible slow allocator)
};

struct aws_allocator *create(const Config &cfg); // resets all state; one allocator per run
struct aws_allocator *get();
size_t live_count();
size_t live_bytes();
uint64_t total_allocs();
uint64_t reuse_count();
uint64_t moved_count();
// guard bands / header of every live block; reports via sim::violation
void check_all(const char *where);
// leak report: violation if anything is live
void expect_balanced(const char *where);
std::string describe_live(size_t max_items = 8);
// requested size of a live block, or (size_t)-1 if p is not a live block
size_t block_size(const void *p);
// the next release of p must find all `size` bytes zero (secure variants)
// The n bytes directly behind a live block (part of its guard band) are handed to the harness as memory of a neighbouring object: it may
// write them, the block is never grown in place over them, and they are no longer checked as guard bytes. Returns their address
// (= block + requested size) or nullptr. Packed allocators (no headers between blocks) make such neighbours an everyday situation.
uint8_t *lend_tail(const void *p, size_t n);
void expect_zero_on_release(const void *p);
void clear_expect_zero(const void *p);
// every release must find its block zero-filled (used by C01 file harness on failure paths)
void set_require_zero_all(bool on);
uint64_t zero_checked_releases();
// hook invoked at release time before poisoning
typedef void (*release_hook_fn)(void *p, size_t size, void *ud);
void set_release_hook(release_hook_fn fn, void *ud);
typedef void (*acquire_hook_fn)(size_t size, void *ud); // called at the start of every acquire/calloc the code under test makes
void set_acquire_hook(acquire_hook_fn fn, void *ud);
typedef void (*prerelease_hook_fn)(void *ud); // called at the start of every release of a non-NULL block the code under test makes
void set_prerelease_hook(prerelease_hook_fn fn, void *ud);

} // namespace simalloc
