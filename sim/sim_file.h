// Simulated file layer (DESIGN.md §4.7): fopen/fileno/fstat interposition returning fopencookie streams
// backed by scripted files; plus scripted write streams for the log writers.
#pragma once
#include <stdio.h>
#include <stdint.h>
#include <vector>
#include <string>

namespace simfile {

struct ReadScript {
    std::vector<uint8_t> content;
    int fopen_errno = 0;       // fopen fails
    int fstat_errno = 0;       // fstat fails
    bool fileno_fails = false; // fileno returns -1
    int64_t reported_size = 0; // st_size returned by fstat
    int read_errno = 0;        // read error...
    size_t read_error_at = 0;  // ...once this many bytes were delivered
    bool read_error_persistent = true; // every later read fails as well (false: one failed call, then the data continues)
    size_t chunk = 0;          // max bytes per underlying read call (0 = unlimited)
    bool unbuffered = false;
    bool eager_eof = false;    // a stdio that notices the end of the file as soon as the last byte has been delivered: an fread that fills its
                               // request with the file's last bytes has feof() set on return (glibc only finds out on the next call)
    int close_errno = 0;       // fclose of the stream reports this error (the descriptor is gone all the same, as with close(2) on NFS)
};
// path that the wrapped fopen recognises
static const char *const kPath = "/dsim/file";
void set_read_script(const ReadScript &s);
struct ReadStats { int opens = 0, closes = 0, reads = 0; size_t bytes = 0; int fstats = 0; bool error_fired = false; bool close_error_fired = false; };
ReadStats read_stats();

// scripted write stream (C14): records everything written; may fail
struct WriteStream;
typedef void (*write_cb)(const char *data, size_t n, void *ud); // called under the baton for each underlying write
FILE *open_write_stream(write_cb cb, void *ud);
// path that the wrapped fopen recognises for writing (log writers opening their own file): served by a scripted write stream
static const char *const kLogPath = "/dsim/log";
void set_log_path_sink(write_cb cb, void *ud); // must be set before the library opens kLogPath
int log_path_opens();
int log_path_closes();
void set_log_path_fopen_errno(int e);
// make the k-th following write (1 = next) fail with errno e (0 disables); short = bytes accepted before failing
void write_stream_fail(int nth_from_now, int e, size_t accept_bytes);
int write_stream_failures();
// stderr: while a sink is set, every fwrite of the code under test to stderr is delivered to it instead (one call per fwrite)
void set_stderr_sink(write_cb cb, void *ud);
int std_stream_closes(); // fclose calls on stdin/stdout/stderr made inside runs (recorded, never carried out)
void reset();

} // namespace simfile
