#include "sim_alloc.h"
#include <stdlib.h>
#include <string.h>
#include <stdio.h>
#include <map>
#include <unordered_map>
#include <vector>
#include <algorithm>
#include <sys/mman.h>
#include <sys/syscall.h>
#include <unistd.h>

#if defined(__SANITIZE_ADDRESS__)
#    define DSIM_ASAN 1
#elif defined(__has_feature)
#    if __has_feature(address_sanitizer)
#        define DSIM_ASAN 1
#    endif
#endif
#ifdef DSIM_ASAN
extern "C" void __asan_poison_memory_region(void const volatile *addr, size_t size);
extern "C" void __asan_unpoison_memory_region(void const volatile *addr, size_t size);
#    define POISON(p, n) __asan_poison_memory_region((p), (n))
#    define UNPOISON(p, n) __asan_unpoison_memory_region((p), (n))
#else
#    define POISON(p, n) ((void)0)
#    define UNPOISON(p, n) ((void)0)
#endif

namespace simalloc {

static const uint64_t MAGIC_LIVE = 0xA110CA7EDB10C0DEull;
static const uint64_t MAGIC_FREE = 0xF4EEDB10C0DEF4EEull;
static const size_t GUARD = 16;
static const uint8_t GUARD_BYTE = 0xC5;
static const uint8_t FREE_BYTE = 0xDD;

struct Hdr {
    uint64_t magic;
    uint64_t id;
    size_t size; // requested
    size_t cap;  // usable capacity of this block (class size)
    uint64_t alloc_seq; // simulator event number at allocation
    uint64_t flags;     // bit0: must be zero at release; bit1: carved out of a recycled page (never reused, not malloc'ed);
                        // bit4: "whole page": the block IS a recycled page, handed out at the page's own address with this header kept
                        // elsewhere - the way a real malloc re-uses freed memory (no header in front, contents left as they were)
    uint8_t *user;      // bit4 blocks: the block's address
    uint64_t pad;       // keeps sizeof(Hdr) + GUARD a multiple of 16 (alignment of the block behind it)
};
static_assert(sizeof(Hdr) == 64, "hdr");

static inline uint8_t *user_of(Hdr *h) { return (h->flags & 16) ? h->user : (uint8_t *)h + sizeof(Hdr) + GUARD; }
static inline Hdr *hdr_of(const void *p) { return (Hdr *)((uint8_t *)p - GUARD - sizeof(Hdr)); }

struct State {
    Config cfg;
    sim::Rng rng{1};
    struct aws_allocator vt;
    std::unordered_map<const void *, Hdr *> live;
    std::map<size_t, std::vector<Hdr *>> freelists;
    std::vector<Hdr *> all; // everything obtained from malloc in this run
    uint64_t next_id = 1, total = 0, reused = 0, moved = 0, zero_checked = 0;
    uint8_t junk = 0xA5;
    bool require_zero_all = false;
    release_hook_fn hook = nullptr;
    acquire_hook_fn ahook = nullptr;
    void *ahook_ud = nullptr;
    prerelease_hook_fn rhook = nullptr;
    void *rhook_ud = nullptr;
    void *hook_ud = nullptr;
};
static State S;

// Blocks come from a private arena that is reset for every run, so that addresses handed to the library - which
// some library paths hash or compare (memtrace's address table, the small-block allocator's page arithmetic) - do not
// depend on what ran earlier in the same process.
static uint8_t *g_arena = nullptr;
static const size_t ARENA_SIZE = (size_t)512 << 20;
static size_t g_arena_used = 0, g_arena_high = 0;
static Hdr *arena_block(size_t total) {
    if (!g_arena) {
        void *m = mmap(nullptr, ARENA_SIZE, PROT_READ | PROT_WRITE, MAP_PRIVATE | MAP_ANONYMOUS | MAP_NORESERVE, -1, 0);
        if (m == MAP_FAILED) return nullptr;
        g_arena = (uint8_t *)m;
    }
    total = (total + 15) & ~(size_t)15;
    if (g_arena_used + total > ARENA_SIZE) return nullptr;
    Hdr *h = (Hdr *)(g_arena + g_arena_used);
    g_arena_used += total;
    if (g_arena_used > g_arena_high) g_arena_high = g_arena_used;
    UNPOISON(h, total);
    return h;
}
// Under ASan the guard bands (and the slack between the requested size and the block's capacity) are poisoned while a block is live: the
// code under test must not even READ past what it asked for. The allocator opens them around its own checks. Bytes lent to the harness
// as a neighbouring object (lend_tail) stay accessible; huge and whole-page blocks have no guards.
static inline void guards_open(Hdr *h) {
    if (h->flags & (4 | 16)) return;
    uint8_t *u = user_of(h); // only the guard regions are touched: the block itself may be tens of MiB
    UNPOISON(u - GUARD, GUARD);
    UNPOISON(u + h->size, h->cap + GUARD - h->size);
}
static inline void guards_close(Hdr *h) {
    if (h->flags & (4 | 16)) return;
    uint8_t *u = user_of(h);
    const size_t lent = (size_t)((h->flags >> 8) & 0xFF);
    POISON(u - GUARD, GUARD);
    if (h->size + lent < h->cap + GUARD) POISON(u + h->size + lent, h->cap + GUARD - h->size - lent);
}
static bool in_arena(const void *p) { return g_arena && (const uint8_t *)p >= g_arena && (const uint8_t *)p < g_arena + ARENA_SIZE; }

static size_t class_of(size_t n) { return (n + 15) & ~(size_t)15; }

static void check_block(Hdr *h, const char *where) {
    if (h->magic != MAGIC_LIVE)
        sim::violation("alloc:header", "%s: block #%llu header damaged (magic %llx)", where, (unsigned long long)h->id,
                       (unsigned long long)h->magic);
    uint8_t *u = user_of(h);
    if (h->flags & 16) return; // no guard bands around a page that is handed out whole
    guards_open(h);
    for (size_t i = 0; i < GUARD; i++)
        if (u[-(ptrdiff_t)GUARD + (ptrdiff_t)i] != GUARD_BYTE)
            sim::violation("alloc:underrun", "%s: block #%llu (size %zu, allocated at event %llu): byte %zd before the block was overwritten",
                           where, (unsigned long long)h->id, h->size, (unsigned long long)h->alloc_seq, (ptrdiff_t)GUARD - (ptrdiff_t)i);
    const size_t lent = (size_t)((h->flags >> 8) & 0xFF); // bytes right behind the block that the harness uses as a neighbouring object
    for (size_t i = h->size + lent; i < h->cap + GUARD; i++)
        if (u[i] != GUARD_BYTE)
            sim::violation("alloc:overrun", "%s: block #%llu (size %zu, allocated at event %llu): byte at offset %zu (past the end) was overwritten",
                           where, (unsigned long long)h->id, h->size, (unsigned long long)h->alloc_seq, i);
    guards_close(h);
}

static const size_t HUGE = (size_t)1 << 30; // blocks this large are address space only: mapped without backing, never filled or scanned
static std::vector<std::pair<void *, size_t>> g_huge_maps;
static std::vector<struct Hdr *> g_side_hdrs; // headers of whole-page blocks (kept apart from the block)
static void *do_acquire_huge(size_t size) {
    size_t cap = class_of(size);
    size_t total = sizeof(Hdr) + GUARD + cap + GUARD;
    total = (total + 4095) & ~(size_t)4095;
    // raw system call: the sanitizer runtime would otherwise paint shadow memory for the whole (multi-GiB) range
    void *m = (void *)syscall(SYS_mmap, nullptr, total, PROT_READ | PROT_WRITE, MAP_PRIVATE | MAP_ANONYMOUS | MAP_NORESERVE, -1, 0);
    if (m == MAP_FAILED) { fprintf(stderr, "dsim: cannot map %zu bytes of address space\n", total); _Exit(2); }
    g_huge_maps.emplace_back(m, total);
    Hdr *h = (Hdr *)m;
    h->cap = cap; h->magic = MAGIC_LIVE; h->id = S.next_id++; h->size = size; h->alloc_seq = sim::seq(); h->flags = 4; h->user = nullptr; // bit2: huge
    uint8_t *u = user_of(h);
    memset(u - GUARD, GUARD_BYTE, GUARD);
    memset(u + size, GUARD_BYTE, cap - size + GUARD);
    S.live[u] = h;
    S.total++;
    sim::probe("huge_block_mapped");
    return u;
}

static void *do_acquire(size_t size) {
    if (S.cfg.yield_points) sim::yield(sim::PK_HARNESS, nullptr, 1);
    if (size >= HUGE) return do_acquire_huge(size);
    if (S.cfg.carve_recycled && size > 512 && size <= 4096 && sim::recycled_pages() > 0 && S.rng.chance(0.3)) {
        void *pg = sim::take_recycled_page();
        if (pg) {
            Hdr *wh = (Hdr *)malloc(sizeof(Hdr));
            if (!wh) { fprintf(stderr, "dsim: out of real memory\n"); _Exit(2); }
            wh->magic = MAGIC_LIVE; wh->id = S.next_id++; wh->size = size; wh->cap = 4096; wh->alloc_seq = sim::seq(); wh->flags = 2 | 16; wh->user = (uint8_t *)pg;
            g_side_hdrs.push_back(wh);
            S.live[pg] = wh;
            S.total++;
            sim::probe("large_block_is_a_recycled_page_contents_left_as_freed");
            return pg; // neither junk-filled nor zeroed: whatever the previous owner left is still there
        }
    }
    size_t cap = class_of(size ? size : 1);
    Hdr *h = nullptr;
    bool carved = false;
    auto it = S.freelists.find(cap);
    if (it != S.freelists.end() && !it->second.empty() && S.rng.chance(S.cfg.p_reuse)) {
        h = it->second.back();
        it->second.pop_back();
        UNPOISON(user_of(h), h->cap + GUARD);
        S.reused++;
    } else {
        void *pg = nullptr;
        if (S.cfg.carve_recycled && size > 512 && size <= 3500 && (pg = sim::take_recycled_page()) != nullptr) {
            // inside a page the code under test freed earlier; its first 64 bytes keep whatever that code left there
            h = (Hdr *)((uint8_t *)pg + 64);
            h->cap = cap;
            carved = true;
            sim::probe("large_block_placed_in_recycled_page");
        } else {
            h = arena_block(sizeof(Hdr) + GUARD + cap + GUARD);
            if (!h) {
                h = (Hdr *)malloc(sizeof(Hdr) + GUARD + cap + GUARD);
                if (!h) { fprintf(stderr, "dsim: out of real memory\n"); _Exit(2); }
                S.all.push_back(h);
            }
            h->cap = cap;
        }
    }
    h->magic = MAGIC_LIVE;
    h->id = S.next_id++;
    h->size = size;
    h->alloc_seq = sim::seq();
    h->flags = carved ? 2 : 0;
    h->user = nullptr;
    uint8_t *u = user_of(h);
    memset(u - GUARD, GUARD_BYTE, GUARD);
    memset(u, S.junk, size);
    memset(u + size, GUARD_BYTE, cap - size + GUARD);
    S.live[u] = h;
    S.total++;
    guards_close(h);
    return u;
}

static void do_release(void *p, bool internal = false) {
    if (S.cfg.yield_points) sim::yield(sim::PK_HARNESS, nullptr, 2);
    auto it = S.live.find(p);
    if (it == S.live.end()) {
        // either a double free or a foreign pointer
        sim::violation("alloc:bad-release", "release of %s pointer (not a live block of the simulated allocator)",
                       "an unknown or already released");
    }
    Hdr *h = it->second;
    check_block(h, "release");
    guards_open(h);
    uint8_t *u = user_of(h);
    if (!internal && !(h->flags & 4) && ((h->flags & 1) || S.require_zero_all)) {
        S.zero_checked++;
        for (size_t i = 0; i < h->size; i++)
            if (u[i] != 0)
                sim::violation("secure-zero", "block #%llu (size %zu) handed back to the allocator with non-zero byte at offset %zu",
                               (unsigned long long)h->id, h->size, i);
    }
    if (S.hook && !internal) S.hook(p, h->size, S.hook_ud); // only releases requested by the code under test
    S.live.erase(it);
    if (h->flags & 4) { // huge: give the address space back
        for (size_t i = 0; i < g_huge_maps.size(); i++)
            if (g_huge_maps[i].first == (void *)h) { syscall(SYS_munmap, g_huge_maps[i].first, g_huge_maps[i].second); g_huge_maps.erase(g_huge_maps.begin() + (long)i); break; }
        return;
    }
    if (h->flags & 16) { // the page itself stays with the simulator until the next run starts
        for (size_t i = 0; i < g_side_hdrs.size(); i++) if (g_side_hdrs[i] == h) { g_side_hdrs[i] = g_side_hdrs.back(); g_side_hdrs.pop_back(); break; }
        free(h);
        return;
    }
    h->magic = MAGIC_FREE;
    memset(u, FREE_BYTE, h->cap + GUARD);
    POISON(u, h->cap + GUARD);
    if (!(h->flags & 2)) S.freelists[h->cap].push_back(h);
}

// an allocator is application code: before it serves a request of the code under test it may do anything an application may do
// (the hook is not called for the allocator's own internal moves)
static void *vt_acquire(struct aws_allocator *, size_t size) { if (S.ahook) S.ahook(size, S.ahook_ud); return do_acquire(size); }
static void vt_release(struct aws_allocator *, void *p) { if (p && S.rhook) S.rhook(S.rhook_ud); if (p) do_release(p); }
static void *vt_calloc(struct aws_allocator *, size_t n, size_t sz) {
    if (S.ahook) S.ahook(n * sz, S.ahook_ud);
    void *p = do_acquire(n * sz);
    memset(p, 0, n * sz);
    return p;
}
static void *vt_realloc(struct aws_allocator *, void *old, size_t oldsize, size_t newsize) {
    if (!old) return do_acquire(newsize);
    auto it = S.live.find(old);
    if (it == S.live.end()) sim::violation("alloc:bad-realloc", "realloc of a pointer that is not a live block");
    Hdr *h = it->second;
    check_block(h, "realloc");
    (void)oldsize;
    if (h->flags & 16) {
        size_t keep16 = h->size < newsize ? h->size : newsize;
        void *np16 = do_acquire(newsize);
        memcpy(np16, old, keep16);
        do_release(old, true);
        S.moved++;
        return np16;
    }
    if ((h->flags & 4) || newsize >= HUGE) {
        // huge blocks: new mapping, copy only the first and last 64 KiB worth of the common prefix (the rest is untouched address space)
        size_t keep = h->size < newsize ? h->size : newsize;
        void *np = do_acquire(newsize);
        size_t edge = keep < 65536 ? keep : 65536;
        memcpy(np, old, edge);
        if (keep > edge) memcpy((uint8_t *)np + keep - edge, (uint8_t *)old + keep - edge, edge);
        do_release(old, true);
        S.moved++;
        return np;
    }
    if (newsize > h->cap && !(h->flags & (2 | 4 | 16)) && !((h->flags >> 8) & 0xFF) && in_arena(h) &&
        (uint8_t *)h + sizeof(Hdr) + GUARD + h->cap + GUARD == g_arena + g_arena_used && !S.rng.chance(S.cfg.p_move)) {
        // the block is the last one of the arena: like a real heap extending its top chunk, it grows where it is (a buffer that is grown
        // a few KiB at a time tens of thousands of times would otherwise be copied each time)
        size_t newcap = class_of(newsize), delta = newcap - h->cap;
        if (g_arena_used + delta <= ARENA_SIZE) {
            guards_open(h);
            g_arena_used += delta;
            if (g_arena_used > g_arena_high) g_arena_high = g_arena_used;
            uint8_t *u = user_of(h);
            UNPOISON(u + h->cap, delta + GUARD);
            memset(u + h->size, S.junk, newsize - h->size);
            memset(u + newsize, GUARD_BYTE, newcap - newsize + GUARD);
            h->size = newsize;
            h->cap = newcap;
            guards_close(h);
            return old;
        }
    }
    if (newsize <= h->cap && !((h->flags >> 8) & 0xFF) && !S.rng.chance(S.cfg.p_move)) {
        // stays in place
        guards_open(h);
        uint8_t *u = user_of(h);
        if (newsize > h->size) memset(u + h->size, S.junk, newsize - h->size);
        else memset(u + newsize, GUARD_BYTE, h->size - newsize);
        h->size = newsize;
        guards_close(h);
        return old;
    }
    size_t keep = h->size < newsize ? h->size : newsize;
    void *np = do_acquire(newsize);
    memcpy(np, old, keep);
    do_release(old, true);
    S.moved++;
    return np;
}

struct aws_allocator *create(const Config &cfg) {
    for (Hdr *h : S.all) {
        UNPOISON(h, sizeof(Hdr) + GUARD + h->cap + GUARD);
        free(h);
    }
    S.all.clear();
    for (auto &m : g_huge_maps) syscall(SYS_munmap, m.first, m.second);
    g_huge_maps.clear();
    for (Hdr *h : g_side_hdrs) free(h); // side headers of whole-page blocks left by a run that ended early
    g_side_hdrs.clear();
    if (g_arena && g_arena_high) {
        UNPOISON(g_arena, g_arena_high);
        memset(g_arena, 0xEE, g_arena_high); // nothing of an earlier run can be read back
        POISON(g_arena, g_arena_high);
    }
    g_arena_used = g_arena_high = 0;
    S.live.clear();
    S.freelists.clear();
    S.cfg = cfg;
    S.rng = sim::Rng(sim::mix64(cfg.seed, 0xA110C));
    S.next_id = 1; S.total = S.reused = S.moved = S.zero_checked = 0;
    S.junk = (uint8_t)(0x80 | (S.rng.next() & 0x7F));
    if (S.junk == GUARD_BYTE || S.junk == FREE_BYTE) S.junk = 0xA5;
    S.require_zero_all = false;
    S.hook = nullptr; S.hook_ud = nullptr;
    S.ahook = nullptr; S.ahook_ud = nullptr; S.rhook = nullptr; S.rhook_ud = nullptr;
    S.vt.mem_acquire = vt_acquire;
    S.vt.mem_release = vt_release;
    S.vt.mem_realloc = cfg.has_realloc ? vt_realloc : nullptr;
    S.vt.mem_calloc = cfg.has_calloc ? vt_calloc : nullptr;
    S.vt.impl = &S;
    return &S.vt;
}
struct aws_allocator *get() { return &S.vt; }
size_t live_count() { return S.live.size(); }
size_t live_bytes() { size_t n = 0; for (auto &kv : S.live) n += kv.second->size; return n; }
uint64_t total_allocs() { return S.total; }
uint64_t reuse_count() { return S.reused; }
uint64_t moved_count() { return S.moved; }
uint64_t zero_checked_releases() { return S.zero_checked; }
void check_all(const char *where) {
    std::vector<Hdr *> v;
    for (auto &kv : S.live) v.push_back(kv.second);
    std::sort(v.begin(), v.end(), [](Hdr *a, Hdr *b) { return a->id < b->id; });
    for (Hdr *h : v) check_block(h, where);
}
std::string describe_live(size_t max_items) {
    std::vector<Hdr *> v;
    for (auto &kv : S.live) v.push_back(kv.second);
    std::sort(v.begin(), v.end(), [](Hdr *a, Hdr *b) { return a->id < b->id; });
    std::string s;
    char b[128];
    for (size_t i = 0; i < v.size() && i < max_items; i++) {
        snprintf(b, sizeof b, "#%llu(size %zu, allocated at event %llu) ", (unsigned long long)v[i]->id, v[i]->size,
                 (unsigned long long)v[i]->alloc_seq);
        s += b;
    }
    if (v.size() > max_items) s += "...";
    return s;
}
void expect_balanced(const char *where) {
    check_all(where);
    if (!S.live.empty()) {
        std::string d = describe_live();
        sim::violation("leak", "%s: %zu block(s), %zu bytes still allocated: %s", where, S.live.size(), live_bytes(), d.c_str());
    }
}
size_t block_size(const void *p) {
    auto it = S.live.find(p);
    return it == S.live.end() ? (size_t)-1 : it->second->size;
}
uint8_t *lend_tail(const void *p, size_t n) {
    auto it = S.live.find(p);
    if (it == S.live.end()) return nullptr;
    Hdr *h = it->second;
    if ((h->flags & 4) || n > 255 || h->size + n > h->cap + GUARD) return nullptr;
    h->flags = (h->flags & ~(uint64_t)0xFF00) | ((uint64_t)n << 8);
    guards_open(h);
    guards_close(h); // the lent bytes stay accessible
    return user_of(h) + h->size;
}
void expect_zero_on_release(const void *p) {
    auto it = S.live.find(p);
    if (it != S.live.end()) it->second->flags |= 1;
}
void clear_expect_zero(const void *p) {
    auto it = S.live.find(p);
    if (it != S.live.end()) it->second->flags &= ~(uint64_t)1;
}
void set_require_zero_all(bool on) { S.require_zero_all = on; }
void set_release_hook(release_hook_fn fn, void *ud) { S.hook = fn; S.hook_ud = ud; }
void set_acquire_hook(acquire_hook_fn fn, void *ud) { S.ahook = fn; S.ahook_ud = ud; }
void set_prerelease_hook(prerelease_hook_fn fn, void *ud) { S.rhook = fn; S.rhook_ud = ud; }

} // namespace simalloc
