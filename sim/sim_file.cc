#ifndef _GNU_SOURCE
#define _GNU_SOURCE
#endif
#include "sim_file.h"
#include "sim.h"
#include <string.h>
#include <errno.h>
#include <sys/stat.h>
#include <algorithm>

extern "C" {
size_t __real_fwrite(const void *, size_t, size_t, FILE *);
size_t __real_fread(void *, size_t, size_t, FILE *);
int __real_fclose(FILE *);
FILE *__real_fopen(const char *, const char *);
int __real_fileno(FILE *);
int __real_fstat(int, struct stat *);
}

namespace simfile {

static const int MAGIC_FD = 1000123;
static ReadScript g_script;
static ReadStats g_rstats;
struct ReadCookie { size_t pos = 0; bool errored = false; };
static FILE *g_read_fp = nullptr;

static ssize_t rd(void *ck, char *buf, size_t size) {
    ReadCookie *c = (ReadCookie *)ck;
    g_rstats.reads++;
    sim::yield(sim::PK_HARNESS, nullptr, 10);
    size_t limit = size;
    if (g_script.chunk && limit > g_script.chunk) limit = g_script.chunk;
    if (g_script.read_errno && c->errored && g_script.read_error_persistent) {
        errno = g_script.read_errno;
        return -1;
    }
    if (g_script.read_errno && !c->errored) {
        if (c->pos >= g_script.read_error_at) {
            c->errored = true;
            g_rstats.error_fired = true;
            sim::fault_fired("file_read_error");
            errno = g_script.read_errno;
            return -1;
        }
        limit = std::min(limit, g_script.read_error_at - c->pos);
    }
    size_t avail = g_script.content.size() - std::min(c->pos, g_script.content.size());
    size_t n = std::min(limit, avail);
    if (n) memcpy(buf, g_script.content.data() + c->pos, n);
    c->pos += n;
    g_rstats.bytes += n;
    return (ssize_t)n;
}
// a regular file is seekable: code that measures it with fseek/ftell instead of fstat gets the file's real size and position
static int rd_seek(void *ck, off64_t *off, int whence) {
    ReadCookie *c = (ReadCookie *)ck;
    int64_t base = whence == SEEK_SET ? 0 : whence == SEEK_CUR ? (int64_t)c->pos : whence == SEEK_END ? (int64_t)g_script.content.size() : -1;
    if (base < 0 || base + *off < 0) { errno = EINVAL; return -1; }
    c->pos = (size_t)(base + *off);
    *off = (off64_t)c->pos;
    return 0;
}
static int rd_close(void *ck) {
    g_rstats.closes++;
    delete (ReadCookie *)ck;
    g_read_fp = nullptr;
    if (g_script.close_errno) {
        g_rstats.close_error_fired = true;
        sim::fault_fired("file_close_error");
        errno = g_script.close_errno;
        return -1;
    }
    return 0;
}

void set_read_script(const ReadScript &s) { g_script = s; g_rstats = ReadStats(); }
ReadStats read_stats() { return g_rstats; }

struct WriteStream { write_cb cb; void *ud; bool is_log_path; };
static write_cb g_log_cb = nullptr;
static void *g_log_ud = nullptr;
static int g_log_opens = 0, g_log_closes = 0, g_log_fopen_errno = 0;
static int g_wfail_n = 0, g_wfail_errno = 0, g_wfailures = 0;
static size_t g_wfail_accept = 0;
static bool g_fail_pending = false;
static ssize_t wr(void *ck, const char *buf, size_t size) {
    WriteStream *w = (WriteStream *)ck;
    sim::yield(sim::PK_HARNESS, nullptr, 11);
    if (g_fail_pending) { // the retry of the remainder after a short write fails
        g_fail_pending = false;
        g_wfailures++; // whether this call is stdio's retry or the next line's write is up to stdio: count it as a failure of its own
        sim::fault_fired("stream_write_error");
        errno = g_wfail_errno;
        return 0;
    }
    if (g_wfail_n > 0 && --g_wfail_n == 0) {
        g_wfailures++;
        sim::fault_fired("stream_write_error");
        size_t acc = std::min(g_wfail_accept, size);
        if (acc && acc < size) { w->cb(buf, acc, w->ud); g_fail_pending = true; return (ssize_t)acc; } // short write, then error
        errno = g_wfail_errno;
        return 0; // fopencookie: 0 signals an error for write functions
    }
    w->cb(buf, size, w->ud);
    return (ssize_t)size;
}
static int wr_close(void *ck) { if (((WriteStream *)ck)->is_log_path) g_log_closes++; delete (WriteStream *)ck; return 0; }
FILE *open_write_stream(write_cb cb, void *ud) {
    WriteStream *w = new WriteStream{cb, ud, false};
    cookie_io_functions_t io = {nullptr, wr, nullptr, wr_close};
    FILE *f = fopencookie(w, "w", io);
    if (f) setvbuf(f, nullptr, _IONBF, 0);
    return f;
}
void set_log_path_sink(write_cb cb, void *ud) { g_log_cb = cb; g_log_ud = ud; }
int log_path_opens() { return g_log_opens; }
int log_path_closes() { return g_log_closes; }
void set_log_path_fopen_errno(int e) { g_log_fopen_errno = e; }
void write_stream_fail(int nth, int e, size_t accept) { g_wfail_n = nth; g_wfail_errno = e; g_wfail_accept = accept; }
int write_stream_failures() { return g_wfailures; }
static write_cb g_stderr_cb = nullptr;
static void *g_stderr_ud = nullptr;
static int g_std_closes = 0;
void set_stderr_sink(write_cb cb, void *ud) { g_stderr_cb = cb; g_stderr_ud = ud; }
int std_stream_closes() { return g_std_closes; }
void reset() { g_stderr_cb = nullptr; g_stderr_ud = nullptr; g_std_closes = 0; g_wfail_n = 0; g_wfailures = 0; g_fail_pending = false; g_log_cb = nullptr; g_log_ud = nullptr; g_log_opens = g_log_closes = 0; g_log_fopen_errno = 0; g_script = ReadScript(); g_rstats = ReadStats(); }

} // namespace simfile

using namespace simfile;
extern "C" {
// The process's standard streams belong to the process: what the code under test writes to stderr during a run is delivered to the
// harness's sink (one call per fwrite, like a write stream), and an fclose of a standard stream is recorded and not carried out.
size_t __wrap_fwrite(const void *ptr, size_t size, size_t n, FILE *f) {
    if (f == stderr && g_stderr_cb && sim::active()) {
        sim::yield(sim::PK_HARNESS, nullptr, 11);
        g_stderr_cb((const char *)ptr, size * n, g_stderr_ud);
        return n;
    }
    return __real_fwrite(ptr, size, n, f);
}
size_t __wrap_fread(void *ptr, size_t size, size_t n, FILE *f) {
    size_t got = __real_fread(ptr, size, n, f);
    if (f && f == g_read_fp && sim::active() && g_script.eager_eof && got == n && n != 0 && !ferror(f) && !feof(f)) {
        int ch = getc(f); // look one byte ahead: at the end of the data this sets the stream's end-of-file indicator
        if (ch != EOF) ungetc(ch, f);
        else if (feof(f)) sim::probe("fread_filled_its_request_and_reported_eof_in_the_same_call");
    }
    return got;
}
int __wrap_fclose(FILE *f) {
    if ((f == stderr || f == stdout || f == stdin) && sim::active()) {
        g_std_closes++;
        sim::probe("fclose_of_a_standard_stream");
        return 0;
    }
    return __real_fclose(f);
}
FILE *__wrap_fopen(const char *path, const char *mode) {
    if (path && !strcmp(path, kPath) && sim::active()) {
        g_rstats.opens++;
        sim::yield(sim::PK_HARNESS, nullptr, 12);
        if (g_script.fopen_errno) {
            sim::fault_fired("fopen_error");
            errno = g_script.fopen_errno;
            return nullptr;
        }
        ReadCookie *c = new ReadCookie();
        cookie_io_functions_t io = {rd, nullptr, rd_seek, rd_close};
        FILE *f = fopencookie(c, "r", io);
        if (f && g_script.unbuffered) setvbuf(f, nullptr, _IONBF, 0);
        g_read_fp = f;
        return f;
    }
    if (path && !strcmp(path, kLogPath) && sim::active() && g_log_cb) {
        sim::yield(sim::PK_HARNESS, nullptr, 13);
        if (g_log_fopen_errno) { sim::fault_fired("fopen_error"); errno = g_log_fopen_errno; return nullptr; }
        g_log_opens++;
        WriteStream *w = new WriteStream{g_log_cb, g_log_ud, true};
        cookie_io_functions_t io = {nullptr, wr, nullptr, wr_close};
        FILE *f = fopencookie(w, "w", io);
        if (f) setvbuf(f, nullptr, _IONBF, 0);
        return f;
    }
    return __real_fopen(path, mode);
}
int __wrap_fileno(FILE *f) {
    if (f && f == g_read_fp) {
        if (g_script.fileno_fails) { errno = EBADF; return -1; }
        return MAGIC_FD;
    }
    return __real_fileno(f);
}
int __wrap_fstat(int fd, struct stat *st) {
    if (fd == MAGIC_FD) {
        g_rstats.fstats++;
        if (g_script.fstat_errno) {
            sim::fault_fired("fstat_error");
            errno = g_script.fstat_errno;
            return -1;
        }
        memset(st, 0, sizeof *st);
        st->st_mode = S_IFREG | 0644;
        st->st_size = (off_t)g_script.reported_size;
        return 0;
    }
    return __real_fstat(fd, st);
}
}
