// dsim — deterministic simulator core for aws-c-common (see /verif/DESIGN.md §4)
//
// Real OS threads, one baton: exactly one simulated thread executes at a time and control changes
// hands only inside the simulator, at decision points. Every scheduling/fault choice comes from a
// recorded "choice stream" that is either drawn from a seeded PRNG (search) or replayed (replay).
#pragma once
#include <stdint.h>
#include <stddef.h>
#include <stdarg.h>
#include <string>
#include <vector>
#include <map>
#include <functional>

extern "C" {
// Called by the force-included sim_atomics.h before every __atomic_* builtin in library code.
void sim_atomic_point(const volatile void *addr, int kind);
}

namespace sim {

// ---------------------------------------------------------------- PRNG
static inline uint64_t splitmix64(uint64_t &s) {
    uint64_t z = (s += 0x9E3779B97F4A7C15ull);
    z = (z ^ (z >> 30)) * 0xBF58476D1CE4E5B9ull;
    z = (z ^ (z >> 27)) * 0x94D049BB133111EBull;
    return z ^ (z >> 31);
}
static inline uint64_t mix64(uint64_t a, uint64_t b) {
    uint64_t s = a ^ (b + 0x9E3779B97F4A7C15ull + (a << 6) + (a >> 2));
    return splitmix64(s);
}
// well-mixed combination for deriving run seeds from (VERIF_SEED, run index): distinct pairs give unrelated seeds
static inline uint64_t seed_mix(uint64_t base, uint64_t idx) {
    uint64_t a = base * 0xD6E8FEB86659FD93ull + 0x2545F4914F6CDD1Dull;
    uint64_t x = splitmix64(a);
    uint64_t b = idx * 0x9E3779B97F4A7C15ull + x;
    return splitmix64(b) ^ x;
}
struct Rng {
    uint64_t s;
    explicit Rng(uint64_t seed = 0) : s(seed) {}
    uint64_t next() { return splitmix64(s); }
    uint64_t below(uint64_t n) { return n ? next() % n : 0; }
    int64_t range(int64_t lo, int64_t hi) { return lo + (int64_t)below((uint64_t)(hi - lo + 1)); } // inclusive
    bool chance(double p) { return (double)(next() >> 11) * (1.0 / 9007199254740992.0) < p; }
    template <class T> const T &pick(const std::vector<T> &v) { return v[below(v.size())]; }
    Rng fork(uint64_t tag) { return Rng(mix64(next(), tag)); }
};

// ---------------------------------------------------------------- plan (generic across harnesses)
struct Op {
    int thr = 0;  // simulated client thread the op belongs to (harness specific meaning)
    int kind = 0; // harness specific
    int64_t a = 0, b = 0, c = 0, d = 0;
};
struct Plan {
    std::string prop;
    uint64_t seed = 0;                   // generating seed (informational once explicit)
    std::map<std::string, int64_t> cfg;  // harness + simulator configuration
    std::vector<Op> ops;
    bool have_choices = false;           // replay from an explicit choice stream
    std::vector<std::pair<uint32_t, uint32_t>> choices; // sparse: (index, value), value != 0
    uint64_t choices_len = 0;            // length of the recorded stream (for strictness checks)
    int64_t get(const char *k, int64_t dflt = 0) const {
        auto it = cfg.find(k);
        return it == cfg.end() ? dflt : it->second;
    }
};

// ---------------------------------------------------------------- choice kinds
enum ChoiceKind {
    CK_SCHED = 1,     // which thread runs next: 0 = stay / lowest ready, v = tid+1
    CK_SIGNAL = 2,    // which cond waiter is woken by signal: 0 = first
    CK_SIGNAL_EXTRA = 3, // signal wakes one more waiter (legal spurious)
    CK_SPURIOUS = 4,  // spurious wake-up of a cond waiter: 0 = none, v = waiter index+1
    CK_STALL = 5,     // stall a thread: 0 = none, v = duration class
    CK_CLOCKJUMP = 6, // REALTIME step: 0 = none, v = class
    CK_FAULT = 7,     // generic buggify coin (push_ref failure etc): 0 = no
    CK_ALLOC = 8,     // allocator behaviour: realloc moves, reuse, ...
    CK_MISC = 9,
};

// decision point kinds (event log)
enum PointKind {
    PK_MUTEX_LOCK = 1, PK_MUTEX_TRYLOCK, PK_MUTEX_UNLOCK, PK_MUTEX_INIT, PK_MUTEX_DESTROY,
    PK_COND_WAIT, PK_COND_TIMEDWAIT, PK_COND_SIGNAL, PK_COND_BROADCAST, PK_COND_INIT, PK_COND_DESTROY,
    PK_COND_WAKE,
    PK_THREAD_CREATE, PK_THREAD_JOIN, PK_THREAD_DETACH, PK_THREAD_START, PK_THREAD_EXIT, PK_ONCE,
    PK_ATOMIC, PK_CLOCK, PK_SLEEP, PK_YIELD, PK_GATE_WAIT, PK_GATE_NOTIFY, PK_ACCESS, PK_HARNESS,
    PK_FAULT, PK_CLOCK_READ, PK__COUNT
};
const char *point_kind_name(int k);

struct Event {
    uint64_t seq;
    int tid;
    int kind;
    int obj; // first-use index of the object, -1 if none
    int64_t result;
    uint64_t vtime;
};

// Observer: harness callback invoked (under the baton) for selected events.
typedef void (*observer_fn)(const Event &ev, void *ud);

// ---------------------------------------------------------------- run control
struct Stats {
    uint64_t points = 0, switches = 0, choices = 0;
    uint64_t vtime_ns = 0;            // virtual time covered
    uint64_t event_hash = 0;          // hash of the full event log
    uint64_t sync_fp = 0;             // synchronisation-order fingerprint
    uint64_t choice_hash = 0;         // hash of the choice stream (decision trace)
    uint32_t threads = 0;
    uint32_t shared_objs = 0;         // objects touched by >= 2 threads
    uint32_t preemptions = 0;         // switches away from a thread that could have continued
    std::map<std::string, uint64_t> faults; // fired counts
    std::map<std::string, uint64_t> probes;
};

// begin a run: the calling OS thread becomes simulated thread 0.
void begin(const Plan &plan);
// end a run (thread 0 only). Returns stats. Reports violations for leftover threads/locks.
Stats end();
bool active();    // inside a run and on a simulated thread
int self();       // simulated thread id or -1
int thread_count();
bool thread_done(int tid);

void yield(int kind = PK_YIELD, const void *obj = nullptr, int64_t result = 0); // explicit decision point
void note(int kind, const void *obj, int64_t result); // event without a scheduling decision
void sleep_ns(uint64_t ns);
uint64_t now_boot();
uint64_t now_real();
uint64_t seq(); // global event sequence number

// choice stream access for harness / wrappers (fault coins etc.)
uint32_t choose(int kind, uint32_t n, uint32_t drawn); // returns recorded or `drawn`; records it
bool coin(int kind, double p);                          // p from cfg; recorded
Rng &sched_rng();

// harness-level blocking: a Gate is a broadcast wait queue
struct Gate {
    int dummy = 0;
    void wait(); // blocks the calling simulated thread until notify_all()
    void notify_all();
    template <class P> void wait_until(P pred) {
        while (!pred()) wait();
    }
};

void probe(const char *name, uint64_t n = 1);
void fault_fired(const char *name);
void set_observer(observer_fn fn, void *ud);

// Violation: prints the result line and terminates the worker process (exit code 3).
[[noreturn]] void violation(const char *sig, const char *fmt, ...) __attribute__((format(printf, 2, 3)));
// registered by the runner: called with the final JSON-ish description
typedef void (*violation_sink_fn)(const char *sig, const char *msg);
void set_violation_sink(violation_sink_fn fn);

// for the runner
void init_process(int max_threads);
uint64_t os_threads_created(); // process lifetime (ASan caps the number of threads a process may ever create)
// run once on every OS thread of the pool (and on the calling thread) before any simulated run: lets the runner warm up
// thread-local first-use state inside the library, so that no run depends on which runs used that OS thread before
void set_thread_warmup(void (*fn)(void));
const std::vector<Event> &recent_events(); // last events (ring, oldest first)
void set_trace(bool on);                   // keep the full event log
const std::vector<Event> &full_trace();
std::vector<std::pair<uint32_t, uint32_t>> recorded_choices(uint64_t *len);
std::string describe_state(); // threads and what they wait for
uint64_t steps();
uint64_t current_event_hash();
void set_create_fail(int nth_from_now, int err); // the n-th following pthread_create (1 = next) fails with err
void set_affinity_fail(int nth_from_now, int err);
void set_mutex_init_fail(int nth_from_now, int err); // the n-th following pthread_mutex_init of the calling thread fails with err
// which: 1 pthread_attr_init, 2 pthread_attr_setstacksize, 3 pthread_attr_getstacksize (armed for the calling thread, one shot)
void set_attr_fail(int which, int err);
// environment knob: the stack size a freshly initialised pthread_attr_t reports (0 = the host's default, 8 MiB on glibc); reset by begin()
void set_default_stack(size_t bytes);
// backtrace(): 0 real, 1 unsupported (returns 0), 2 at most one frame, 3 at most two frames (cfg "backtrace_mode")
int backtrace_mode();
void forget_objects(const void *p, size_t n); // objects identified by address only (atomics) inside a range of real-heap memory that is being freed
bool mutex_held_any();
int unjoined_threads(); // DONE but neither joined nor detached, plus not DONE

// page observation for C03 (posix_memalign / free interposition)
struct PageInfo { void *p; size_t size; };
const std::vector<PageInfo> &live_pages();
uint64_t pages_allocated_total();
// page recycling: memory the code under test gave back with free() is kept (contents intact, as with a real malloc) and may be
// handed out again, to posix_memalign or - through take_recycled_page() - to the simulated parent allocator
void set_page_recycling(bool on);
void *take_recycled_page();
size_t recycled_pages();

// push_ref failure injection (C07/C08): called by the wrapper
bool pushref_should_fail();
void set_pushref_mode(int mode, double p); // 0 off, 1 coin(p) via choice stream, 2 harness-controlled flag
void set_pushref_next(bool fail);

} // namespace sim
