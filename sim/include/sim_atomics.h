/* Force-included (-include) when building aws-c-common for the simulator (DESIGN.md §4.4).
 * Gives every __atomic_* builtin used by the library a schedule point. A function-like macro is not
 * re-expanded inside its own expansion, so the inner name is the compiler builtin.
 * No file under /repo is changed by this. */
#ifndef DSIM_SIM_ATOMICS_H
#define DSIM_SIM_ATOMICS_H
#ifdef __cplusplus
extern "C" {
#endif
void sim_atomic_point(const volatile void *addr, int kind);
#ifdef __cplusplus
}
#endif
#define __atomic_load_n(p, o) (sim_atomic_point((p), 1), __atomic_load_n((p), (o)))
/* a store publishes: what the storing thread goes on to do right after it must be interleavable with the threads that can now see the
 * new value, so a store gets a second schedule point behind it (kind 12) */
#define __atomic_store_n(p, v, o) (sim_atomic_point((p), 2), __atomic_store_n((p), (v), (o)), sim_atomic_point((p), 12))
#define __atomic_exchange_n(p, v, o) (sim_atomic_point((p), 3), __atomic_exchange_n((p), (v), (o)))
#define __atomic_compare_exchange_n(p, e, d, w, s, f)                                                                  \
    (sim_atomic_point((p), 4), __atomic_compare_exchange_n((p), (e), (d), (w), (s), (f)))
#define __atomic_fetch_add(p, v, o) (sim_atomic_point((p), 5), __atomic_fetch_add((p), (v), (o)))
#define __atomic_fetch_sub(p, v, o) (sim_atomic_point((p), 6), __atomic_fetch_sub((p), (v), (o)))
#define __atomic_fetch_or(p, v, o) (sim_atomic_point((p), 7), __atomic_fetch_or((p), (v), (o)))
#define __atomic_fetch_and(p, v, o) (sim_atomic_point((p), 8), __atomic_fetch_and((p), (v), (o)))
#define __atomic_fetch_xor(p, v, o) (sim_atomic_point((p), 9), __atomic_fetch_xor((p), (v), (o)))
#define __atomic_thread_fence(o) (sim_atomic_point((const volatile void *)0, 10), __atomic_thread_fence((o)))
#endif
