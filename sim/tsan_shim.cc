// Flavour B (DESIGN.md §4.9): the library is compiled with clang -fsanitize=thread (instrumentation only) and linked
// against this file instead of the TSan runtime. Every instrumented plain memory access becomes a (sparse, seeded)
// decision point, so a preemption can land between two ordinary loads/stores inside library code; atomics become
// decision points exactly as in flavour A.
#include <stdint.h>
#include <stddef.h>

extern "C" {
void sim_atomic_point(const volatile void *addr, int kind);
void sim_access_point(const void *addr, int size_and_write);
int dsim_flavour_b = 1;

void __tsan_init(void) {}
void __tsan_func_entry(void *pc) { (void)pc; }
void __tsan_func_exit(void) {}

#define RW(n)                                                                                                          \
    void __tsan_read##n(void *a) { sim_access_point(a, n); }                                                           \
    void __tsan_write##n(void *a) { sim_access_point(a, n | 0x100); }                                                  \
    void __tsan_unaligned_read##n(void *a) { sim_access_point(a, n); }                                                 \
    void __tsan_unaligned_write##n(void *a) { sim_access_point(a, n | 0x100); }
RW(1) RW(2) RW(4) RW(8) RW(16)
void __tsan_vptr_update(void **a, void *v) { (void)a; (void)v; }
void __tsan_vptr_read(void **a) { (void)a; }
void __tsan_read_range(void *a, unsigned long n) { (void)n; sim_access_point(a, 0); }
void __tsan_write_range(void *a, unsigned long n) { (void)n; sim_access_point(a, 0x100); }

typedef int morder;
#define ATOMICS(bits, T)                                                                                               \
    T __tsan_atomic##bits##_load(const volatile T *a, morder mo) { (void)mo; sim_atomic_point(a, 1); return __atomic_load_n(a, __ATOMIC_SEQ_CST); } \
    void __tsan_atomic##bits##_store(volatile T *a, T v, morder mo) { (void)mo; sim_atomic_point(a, 2); __atomic_store_n(a, v, __ATOMIC_SEQ_CST); sim_atomic_point(a, 12); } \
    T __tsan_atomic##bits##_exchange(volatile T *a, T v, morder mo) { (void)mo; sim_atomic_point(a, 3); return __atomic_exchange_n(a, v, __ATOMIC_SEQ_CST); } \
    T __tsan_atomic##bits##_fetch_add(volatile T *a, T v, morder mo) { (void)mo; sim_atomic_point(a, 5); return __atomic_fetch_add(a, v, __ATOMIC_SEQ_CST); } \
    T __tsan_atomic##bits##_fetch_sub(volatile T *a, T v, morder mo) { (void)mo; sim_atomic_point(a, 6); return __atomic_fetch_sub(a, v, __ATOMIC_SEQ_CST); } \
    T __tsan_atomic##bits##_fetch_or(volatile T *a, T v, morder mo) { (void)mo; sim_atomic_point(a, 7); return __atomic_fetch_or(a, v, __ATOMIC_SEQ_CST); } \
    T __tsan_atomic##bits##_fetch_and(volatile T *a, T v, morder mo) { (void)mo; sim_atomic_point(a, 8); return __atomic_fetch_and(a, v, __ATOMIC_SEQ_CST); } \
    T __tsan_atomic##bits##_fetch_xor(volatile T *a, T v, morder mo) { (void)mo; sim_atomic_point(a, 9); return __atomic_fetch_xor(a, v, __ATOMIC_SEQ_CST); } \
    int __tsan_atomic##bits##_compare_exchange_strong(volatile T *a, T *c, T v, morder mo, morder fmo) {              \
        (void)mo; (void)fmo; sim_atomic_point(a, 4);                                                                   \
        return __atomic_compare_exchange_n(a, c, v, 0, __ATOMIC_SEQ_CST, __ATOMIC_SEQ_CST);                            \
    }                                                                                                                  \
    int __tsan_atomic##bits##_compare_exchange_weak(volatile T *a, T *c, T v, morder mo, morder fmo) {                \
        (void)mo; (void)fmo; sim_atomic_point(a, 4);                                                                   \
        return __atomic_compare_exchange_n(a, c, v, 0, __ATOMIC_SEQ_CST, __ATOMIC_SEQ_CST);                            \
    }                                                                                                                  \
    T __tsan_atomic##bits##_compare_exchange_val(volatile T *a, T c, T v, morder mo, morder fmo) {                     \
        (void)mo; (void)fmo; sim_atomic_point(a, 4);                                                                   \
        __atomic_compare_exchange_n(a, &c, v, 0, __ATOMIC_SEQ_CST, __ATOMIC_SEQ_CST);                                  \
        return c;                                                                                                      \
    }
ATOMICS(8, uint8_t) ATOMICS(16, uint16_t) ATOMICS(32, uint32_t) ATOMICS(64, uint64_t)
void __tsan_atomic_thread_fence(morder mo) { (void)mo; sim_atomic_point(0, 10); __atomic_thread_fence(__ATOMIC_SEQ_CST); }
void __tsan_atomic_signal_fence(morder mo) { (void)mo; }
}
