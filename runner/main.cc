// dsim worker: search over seeds, serve explicit plans (replay / minimisation), print plans.
//   dsim search <ID> --base B --w W --nw N --start I --count K --seconds S --tier T --out DIR
//   dsim serve  <ID>            (reads one JSON plan per line on stdin; prints RES/VIOL lines)
//   dsim gen    <ID> --seed S --tier T
#include "../harness/harness.h"
#include "../sim/json.h"

#include <aws/common/common.h>
#include <aws/common/logging.h>
#include <aws/common/log_formatter.h>
#include <aws/common/date_time.h>
#include <aws/common/error.h>

#include <signal.h>
#include <stdarg.h>
#include <sched.h>
#include <string.h>
#include <errno.h>
#include <stdio.h>
#include <stdlib.h>
#include <unistd.h>
#include <time.h>
#include <pthread.h>
#include <sys/personality.h>
#include <sys/mman.h>
#include <fcntl.h>
#include <atomic>
#include <unordered_set>
#include <algorithm>
#include <string>

extern "C" int __real_clock_gettime(clockid_t, struct timespec *);
extern "C" int __real_pthread_create(pthread_t *, const pthread_attr_t *, void *(*)(void *), void *);

static const Harness *g_h = nullptr;
static const sim::Plan *g_cur_plan = nullptr;
static std::atomic<uint64_t> g_progress{0};
static uint64_t g_cur_seed = 0, g_cur_idx = 0;
static int g_mode = 0; // 1 search 2 serve
static int g_flavour = 0;
static volatile uint64_t *g_status = nullptr; // shared with the parent: [0]=seed [1]=index [2]=run in progress

static double wall_now() {
    struct timespec ts;
    __real_clock_gettime(CLOCK_MONOTONIC, &ts);
    return (double)ts.tv_sec + (double)ts.tv_nsec * 1e-9;
}

static std::string plan_json(const sim::Plan &p, bool with_recorded, bool pretty) {
    std::string s = "{\"prop\":\"" + mj::esc(p.prop) + "\",\"seed\":" + std::to_string(p.seed) + ",\"cfg\":{";
    bool first = true;
    for (auto &kv : p.cfg) {
        if (!first) s += ",";
        first = false;
        s += "\"" + mj::esc(kv.first) + "\":" + std::to_string(kv.second);
    }
    s += "},\"ops\":[";
    for (size_t i = 0; i < p.ops.size(); i++) {
        const sim::Op &o = p.ops[i];
        if (i) s += ",";
        s += "[" + std::to_string(o.thr) + "," + std::to_string(o.kind) + "," + std::to_string(o.a) + "," + std::to_string(o.b) + "," +
             std::to_string(o.c) + "," + std::to_string(o.d) + "]";
    }
    s += "]";
    if (with_recorded) {
        uint64_t len = 0;
        auto ch = sim::recorded_choices(&len);
        s += ",\"choices_len\":" + std::to_string(len) + ",\"choices\":[";
        for (size_t i = 0; i < ch.size(); i++) {
            if (i) s += ",";
            s += "[" + std::to_string(ch[i].first) + "," + std::to_string(ch[i].second) + "]";
        }
        s += "]";
    } else if (p.have_choices) {
        s += ",\"choices_len\":" + std::to_string(p.choices_len) + ",\"choices\":[";
        for (size_t i = 0; i < p.choices.size(); i++) {
            if (i) s += ",";
            s += "[" + std::to_string(p.choices[i].first) + "," + std::to_string(p.choices[i].second) + "]";
        }
        s += "]";
    }
    if (pretty && g_h && g_h->op_text) {
        s += ",\"ops_text\":[";
        for (size_t i = 0; i < p.ops.size(); i++) {
            if (i) s += ",";
            s += "\"" + mj::esc(g_h->op_text(p.ops[i])) + "\"";
        }
        s += "]";
    }
    s += "}";
    return s;
}

static bool plan_from_json(const std::string &line, sim::Plan &p) {
    mj::Parser ps(line);
    mj::Value v = ps.parse();
    if (!ps.ok || v.t != mj::Value::OBJ) return false;
    p = sim::Plan();
    p.prop = v.gets("prop");
    p.seed = v.getu("seed");
    if (const mj::Value *c = v.get("cfg"))
        for (auto &kv : c->o) p.cfg[kv.first] = kv.second.i;
    if (const mj::Value *o = v.get("ops"))
        for (auto &e : o->a) {
            if (e.a.size() < 6) return false;
            sim::Op op;
            op.thr = (int)e.a[0].i; op.kind = (int)e.a[1].i; op.a = e.a[2].i; op.b = e.a[3].i; op.c = e.a[4].i; op.d = e.a[5].i;
            p.ops.push_back(op);
        }
    if (const mj::Value *c = v.get("choices")) {
        p.have_choices = true;
        for (auto &e : c->a) if (e.a.size() >= 2) p.choices.emplace_back((uint32_t)e.a[0].i, (uint32_t)e.a[1].i);
        p.choices_len = v.getu("choices_len");
    }
    return true;
}

static std::string events_text(size_t max_n) {
    const std::vector<sim::Event> &ev = sim::recent_events();
    std::string s = "[";
    size_t start = ev.size() > max_n ? ev.size() - max_n : 0;
    for (size_t i = start; i < ev.size(); i++) {
        char b[160];
        snprintf(b, sizeof b, "%s\"#%llu T%d %s obj%d r=%lld t=%llu\"", i > start ? "," : "", (unsigned long long)ev[i].seq, ev[i].tid,
                 sim::point_kind_name(ev[i].kind), ev[i].obj, (long long)ev[i].result, (unsigned long long)ev[i].vtime);
        s += b;
    }
    s += "]";
    return s;
}

// search-mode aggregation ---------------------------------------------------------------------------
struct Agg {
    uint64_t runs = 0, points = 0, switches = 0, preempt = 0, vtime = 0, choices = 0, nontrivial_runs = 0, ops = 0;
    std::map<std::string, uint64_t> faults, probes, strat_runs, fault_runs;
    std::unordered_set<uint64_t> fp_nontrivial, fp_trace, fp_sync;
    double t0 = 0;
    std::vector<std::string> samples;
};
static Agg A;
static std::string g_outdir;
static int g_w = 0;

static void write_set(const char *name, const std::unordered_set<uint64_t> &s) {
    if (g_outdir.empty()) return;
    std::vector<uint64_t> v(s.begin(), s.end());
    std::sort(v.begin(), v.end());
    char path[512];
    snprintf(path, sizeof path, "%s/w%d.%d.%s.u64", g_outdir.c_str(), g_w, (int)getpid(), name);
    FILE *f = fopen(path, "wb");
    if (!f) return;
    fwrite(v.data(), 8, v.size(), f);
    fclose(f);
}

static std::string map_json(const std::map<std::string, uint64_t> &m) {
    std::string s = "{";
    bool first = true;
    for (auto &kv : m) {
        if (!first) s += ",";
        first = false;
        s += "\"" + mj::esc(kv.first) + "\":" + std::to_string(kv.second);
    }
    return s + "}";
}

static void print_summary() {
    if (g_mode != 1) return;
    write_set("nt", A.fp_nontrivial);
    write_set("trace", A.fp_trace);
    write_set("sync", A.fp_sync);
    std::string s = "SUMMARY {\"runs\":" + std::to_string(A.runs) + ",\"points\":" + std::to_string(A.points) + ",\"switches\":" +
                    std::to_string(A.switches) + ",\"preemptions\":" + std::to_string(A.preempt) + ",\"vtime_ns\":" + std::to_string(A.vtime) +
                    ",\"choices\":" + std::to_string(A.choices) + ",\"nontrivial_runs\":" + std::to_string(A.nontrivial_runs) +
                    ",\"ops\":" + std::to_string(A.ops) + ",\"wall_s\":" + std::to_string(wall_now() - A.t0) +
                    ",\"distinct_nt_local\":" + std::to_string(A.fp_nontrivial.size()) + ",\"faults\":" + map_json(A.faults) +
                    ",\"fault_runs\":" + map_json(A.fault_runs) + ",\"probes\":" + map_json(A.probes) + ",\"strategies\":" +
                    map_json(A.strat_runs) + ",\"samples\":[";
    for (size_t i = 0; i < A.samples.size(); i++) { if (i) s += ","; s += A.samples[i]; }
    s += "]}";
    puts(s.c_str());
    fflush(stdout);
}

static void viol_sink(const char *sig, const char *msg) {
    std::string s = "VIOL {\"sig\":\"" + mj::esc(sig) + "\",\"msg\":\"" + mj::esc(msg) + "\",\"seed\":" + std::to_string(g_cur_seed) +
                    ",\"idx\":" + std::to_string(g_cur_idx) + ",\"steps\":" + std::to_string(sim::steps()) + ",\"ehash\":\"" + std::to_string(sim::current_event_hash()) + "\",\"events\":" + events_text(200);
    if (g_cur_plan && g_cur_plan->get("_trace_tid", -1) >= 0) {
        // debugging aid: the last events of one simulated thread, from the full trace (plan cfg _trace=1, _trace_tid=N)
        int want = (int)g_cur_plan->get("_trace_tid", -1);
        const std::vector<sim::Event> &full = sim::full_trace();
        std::vector<const sim::Event *> sel;
        for (auto &e : full) if (e.tid == want) sel.push_back(&e);
        s += ",\"tid_events\":[";
        size_t st = sel.size() > 80 ? sel.size() - 80 : 0;
        for (size_t i = st; i < sel.size(); i++) {
            char b[160];
            snprintf(b, sizeof b, "%s\"#%llu %s obj%d r=%lld\"", i > st ? "," : "", (unsigned long long)sel[i]->seq, sim::point_kind_name(sel[i]->kind), sel[i]->obj, (long long)sel[i]->result);
            s += b;
        }
        s += "]";
    }
    if (g_cur_plan) s += ",\"plan\":" + plan_json(*g_cur_plan, true, true);
    s += "}";
    puts(s.c_str());
    fflush(stdout);
    print_summary();
    _exit(3);
}

static void crash_line(const char *what) {
    // async-signal-unsafe but we are dying anyway
    std::string s = std::string("CRASH {\"sig\":\"") + what + "\",\"seed\":" + std::to_string(g_cur_seed) + ",\"idx\":" +
                    std::to_string(g_cur_idx) + ",\"events\":" + events_text(200);
    if (g_cur_plan) s += ",\"plan\":" + plan_json(*g_cur_plan, true, true);
    s += "}";
    puts(s.c_str());
    fflush(stdout);
    print_summary();
}
static void on_signal(int sig) {
    static std::atomic<int> once{0};
    if (once.exchange(1)) _exit(4);
    const char *n = sig == SIGABRT ? "crash:abort" : sig == SIGSEGV ? "crash:segv" : sig == SIGBUS ? "crash:bus" : sig == SIGFPE ? "crash:fpe" : "crash:signal";
    crash_line(n);
    _exit(4);
}
extern "C" void __sanitizer_set_death_callback(void (*)(void)) __attribute__((weak));
static void on_sanitizer_death() {
    static std::atomic<int> once{0};
    if (once.exchange(1)) return;
    crash_line("crash:sanitizer");
}
extern "C" __attribute__((used)) const char *__asan_default_options() {
    return "exitcode=77:detect_leaks=0:abort_on_error=0:handle_abort=0:allocator_may_return_null=1:detect_stack_use_after_return=0";
}
extern "C" __attribute__((used)) const char *__ubsan_default_options() { return "print_stacktrace=1:halt_on_error=1:exitcode=77"; }

static void *watchdog(void *arg) {
    double limit = *(double *)arg;
    uint64_t last = g_progress.load();
    double t_last = wall_now();
    for (;;) {
        struct timespec ts = {0, 200000000};
        clock_nanosleep(CLOCK_MONOTONIC, 0, &ts, nullptr);
        uint64_t p = g_progress.load();
        if (p != last) { last = p; t_last = wall_now(); continue; }
        // heavyweight plans (gigabytes of live memory, a million timers) name their own allowance
        if (g_cur_plan && wall_now() - t_last > limit * (double)(g_cur_plan->get("hang_scale", 1) > 0 ? g_cur_plan->get("hang_scale", 1) : 1)) {
            crash_line("hang:wallclock");
            _exit(5);
        }
    }
    return nullptr;
}

// Thread-local first-use state inside the library (the formatter caches the textual thread id per OS thread): touch it once on
// every pooled OS thread so that a run never depends on which earlier runs happened to use the same OS thread.
static void warmup_va(struct aws_logging_standard_formatting_data *fd, ...) {
    va_list ap;
    va_start(ap, fd);
    aws_format_standard_log_line(fd, ap);
    va_end(ap);
}
static void thread_warmup(void) {
    char buf[256];
    struct aws_logging_standard_formatting_data fd;
    memset(&fd, 0, sizeof fd);
    fd.log_line_buffer = buf; fd.total_length = sizeof buf; fd.level = AWS_LL_INFO; fd.subject_name = "warmup"; fd.format = "x";
    fd.date_format = AWS_DATE_FORMAT_ISO_8601; fd.allocator = aws_default_allocator();
    warmup_va(&fd);
    aws_reset_error();
}

static RunInfo run_one(const sim::Plan &p) {
    // the main thread is the only thread that lives across runs: its thread-local error state must not carry over from one run to the
    // next (a run has to be a function of its plan alone)
    errno = 0;
    aws_reset_error();
    g_cur_plan = &p;
    RunInfo ri = g_h->run(p);
    g_cur_plan = nullptr;
    g_progress++;
    return ri;
}

static const char *strat_name(int64_t s) {
    switch (s) { case 0: return "random"; case 1: return "sticky"; case 2: return "pct"; case 3: return "starve"; case 4: return "roundrobin"; }
    return "?";
}

int main(int argc, char **argv) {
    // ASLR off: addresses (and therefore address-dependent library paths) repeat between processes
    if (!getenv("DSIM_NOASLR_DONE")) {
        int pers = personality(0xffffffff);
        if (pers != -1 && !(pers & ADDR_NO_RANDOMIZE)) {
            if (personality(pers | ADDR_NO_RANDOMIZE) != -1) {
                setenv("DSIM_NOASLR_DONE", "1", 1);
                execv("/proc/self/exe", argv);
            }
        }
    }
    if (argc < 3) { fprintf(stderr, "usage: dsim search|serve|gen <ID> ...\n"); return 2; }
    std::string mode = argv[1];
    g_h = find_harness(argv[2]);
    if (!g_h) { fprintf(stderr, "unknown harness %s\n", argv[2]); return 2; }
    uint64_t base = 1, start = 0, count = UINT64_MAX, seed = 1;
    int nw = 1, tier = 0, cpu = -1;
    double seconds = 1e18, hang_limit = 90;
    for (int i = 3; i + 1 < argc; i += 2) {
        std::string k = argv[i];
        const char *v = argv[i + 1];
        if (k == "--base") base = strtoull(v, 0, 10);
        else if (k == "--w") g_w = atoi(v);
        else if (k == "--nw") nw = atoi(v);
        else if (k == "--start") start = strtoull(v, 0, 10);
        else if (k == "--count") count = strtoull(v, 0, 10);
        else if (k == "--seconds") seconds = atof(v);
        else if (k == "--tier") tier = atoi(v);
        else if (k == "--out") g_outdir = v;
        else if (k == "--seed") seed = strtoull(v, 0, 10);
        else if (k == "--cpu") cpu = atoi(v);
        else if (k == "--hang") hang_limit = atof(v);
        else if (k == "--flavour") g_flavour = atoi(v);
        else if (k == "--status") {
            int fd = open(v, O_RDWR | O_CREAT, 0644);
            if (fd >= 0 && ftruncate(fd, 64) == 0) {
                void *m = mmap(nullptr, 64, PROT_READ | PROT_WRITE, MAP_SHARED, fd, 0);
                if (m != MAP_FAILED) g_status = (volatile uint64_t *)m;
            }
        }
    }
    if (cpu >= 0) {
        cpu_set_t cs;
        CPU_ZERO(&cs);
        CPU_SET(cpu, &cs);
        sched_setaffinity(0, sizeof cs, &cs);
    }
    if (mode == "info") {
        std::string s = std::string("{\"id\":\"") + g_h->id + "\",\"title\":\"" + mj::esc(g_h->title) + "\",\"rule\":\"" + mj::esc(g_h->rule) +
                        "\",\"real\":\"" + mj::esc(g_h->real_components) + "\",\"stubbed\":\"" + mj::esc(g_h->stubbed_components) + "\"}";
        puts(s.c_str());
        return 0;
    }
    if (mode == "describe") {
        // plan JSON on stdin -> the same plan with human-readable operations
        char *buf = nullptr;
        size_t cap = 0;
        ssize_t n = getline(&buf, &cap, stdin);
        sim::Plan p;
        if (n <= 0 || !plan_from_json(std::string(buf, (size_t)n), p)) return 2;
        puts(plan_json(p, false, true).c_str());
        return 0;
    }
    if (mode == "gen") {
        sim::Plan p;
        g_h->gen(seed, tier, p);
        puts(plan_json(p, false, true).c_str());
        return 0;
    }
    setvbuf(stdout, nullptr, _IOLBF, 1 << 16);
    signal(SIGABRT, on_signal);
    signal(SIGSEGV, on_signal);
    signal(SIGBUS, on_signal);
    signal(SIGFPE, on_signal);
    if (__sanitizer_set_death_callback) __sanitizer_set_death_callback(on_sanitizer_death);
    aws_common_library_init(aws_default_allocator());
    sim::set_thread_warmup(thread_warmup);
    sim::init_process(24);
    sim::set_violation_sink(viol_sink);
    pthread_t wd;
    __real_pthread_create(&wd, nullptr, watchdog, &hang_limit);

    if (mode == "search") {
        g_mode = 1;
        A.t0 = wall_now();
        for (uint64_t i = start; i < count; i++) {
            if ((i & 15) == 0 && wall_now() - A.t0 > seconds) break;
            if (sim::os_threads_created() > 3000000) { // ASan refuses to register more than 2^22 threads per process: continue in a new one
                print_summary();
                printf("RESTART %llu\n", (unsigned long long)i);
                fflush(stdout);
                return 0;
            }
            uint64_t idx = i * (uint64_t)nw + (uint64_t)g_w;
            uint64_t s = sim::seed_mix(base, idx);
            g_cur_seed = s;
            g_cur_idx = i;
            if (g_status) { g_status[0] = s; g_status[1] = i; g_status[2] = 1; }
            sim::Plan p;
            g_h->gen(s, tier, p);
            RunInfo ri = run_one(p);
            if (g_status) g_status[2] = 0;
            A.runs++;
            A.points += ri.st.points; A.switches += ri.st.switches; A.preempt += ri.st.preemptions;
            A.vtime += ri.st.vtime_ns; A.choices += ri.st.choices; A.ops += ri.ops_done;
            for (auto &kv : ri.st.faults) { A.faults[kv.first] += kv.second; A.fault_runs[kv.first] += 1; }
            for (auto &kv : ri.st.probes) A.probes[kv.first] += kv.second;
            A.strat_runs[strat_name(p.get("strat", 0))]++;
            A.fp_trace.insert(sim::mix64(ri.st.choice_hash, ri.case_fp));
            A.fp_sync.insert(ri.case_fp);
            if (ri.nontrivial) { A.nontrivial_runs++; A.fp_nontrivial.insert(ri.case_fp); }
            if (A.samples.size() < 3 && ri.nontrivial && (A.runs % 7 == 3 || A.samples.empty())) {
                sim::Plan q = p;
                std::string js = plan_json(q, true, true);
                A.samples.push_back(js);
            }
        }
        print_summary();
        return 0;
    }
    if (mode == "hashes") {
        // determinism self-test support: one line per seed with the event-log and choice-stream hashes
        g_mode = 3;
        for (uint64_t i = start; i < count; i++) {
            uint64_t s = sim::seed_mix(base, i);
            g_cur_seed = s; g_cur_idx = i;
            sim::Plan p;
            g_h->gen(s, tier, p);
            RunInfo ri = run_one(p);
            printf("H %llu %llu %llu %llu\n", (unsigned long long)i, (unsigned long long)ri.st.event_hash, (unsigned long long)ri.st.choice_hash,
                   (unsigned long long)ri.case_fp);
        }
        fflush(stdout);
        return 0;
    }
    if (mode == "serve") {
        g_mode = 2;
        std::string line;
        char *buf = nullptr;
        size_t cap = 0;
        ssize_t n;
        while ((n = getline(&buf, &cap, stdin)) > 0) {
            line.assign(buf, (size_t)n);
            sim::Plan p;
            if (!plan_from_json(line, p)) { puts("ERR bad plan"); fflush(stdout); continue; }
            bool want_trace = p.get("_trace", 0) != 0;
            sim::set_trace(want_trace);
            g_cur_seed = p.seed;
            RunInfo ri = run_one(p);
            std::string s = "RES {\"ok\":true,\"ehash\":\"" + std::to_string(ri.st.event_hash) + "\",\"points\":" + std::to_string(ri.st.points) +
                            ",\"switches\":" + std::to_string(ri.st.switches) + ",\"preemptions\":" + std::to_string(ri.st.preemptions) +
                            ",\"nontrivial\":" + (ri.nontrivial ? "true" : "false") + ",\"case_fp\":\"" + std::to_string(ri.case_fp) +
                            "\",\"faults\":" + map_json(ri.st.faults) + ",\"probes\":" + map_json(ri.st.probes) + "}";
            puts(s.c_str());
            fflush(stdout);
        }
        return 0;
    }
    fprintf(stderr, "unknown mode\n");
    return 2;
}
