#!/bin/bash
# Build aws-c-common from /repo's current working tree for one flavour, then link the dsim worker.
#   build.sh A|B|C|R    (A: gcc ASan+UBSan DEBUG_BUILD; B: clang tsan-instrumented + shim, NDEBUG; C: clang coverage;
#                        R: gcc -O2 -DNDEBUG as shipped, sync-level decision points only)
# Output: /verif/build/<flavour>/dsim
set -e
FL=${1:-A}
REPO=${DSIM_REPO:-/repo}
V=$(cd "$(dirname "$0")" && pwd)
B=$V/build/$FL
mkdir -p $B/lib $B/obj
exec 9>$V/build/.lock.$FL
flock 9
COMMON="-g -fno-omit-frame-pointer -include $V/sim/include/sim_atomics.h -DAWS_C_COMMON_VERIF_SIM"
case $FL in
  A) CC=gcc; CXX=g++; BT=Debug
     LIBFLAGS="-O1 $COMMON -fsanitize=address,undefined -fno-sanitize-recover=undefined"
     HFLAGS="-O1 -g -fno-omit-frame-pointer -fsanitize=address,undefined -fno-sanitize-recover=undefined"
     LDFLAGS="-fsanitize=address,undefined" ;;
  B) CC=clang; CXX=clang++; BT=Release
     LIBFLAGS="-O2 -g -fno-omit-frame-pointer -DNDEBUG -fsanitize=thread -DAWS_C_COMMON_VERIF_SIM"
     HFLAGS="-O1 -g -fno-omit-frame-pointer -DDSIM_FLAVOUR_B=1"
     LDFLAGS="" ;;
  R) CC=gcc; CXX=g++; BT=Release
     # the shipped optimisation level and NDEBUG semantics, no sanitizer, no access instrumentation: what the optimizer
     # does to the code (dead-store elimination before free(), inlining, ...) is what users get
     LIBFLAGS="-O2 $COMMON -DNDEBUG"
     HFLAGS="-O1 -g -fno-omit-frame-pointer"
     LDFLAGS="" ;;
  C) CC=clang; CXX=clang++; BT=Debug
     LIBFLAGS="-O0 $COMMON -fprofile-instr-generate -fcoverage-mapping"
     HFLAGS="-O1 -g -fno-omit-frame-pointer"
     LDFLAGS="-fprofile-instr-generate" ;;
  *) echo "unknown flavour $FL"; exit 2 ;;
esac
# (re)configure always: the library's CMake globs its sources, so added/removed files are picked up
cmake -G Ninja -S $REPO -B $B/lib -DCMAKE_BUILD_TYPE=$BT -DCMAKE_C_COMPILER=$CC -DBUILD_TESTING=OFF -DBUILD_SHARED_LIBS=OFF \
  -DAWS_WARNINGS_ARE_ERRORS=OFF -DCMAKE_C_FLAGS="$LIBFLAGS" -DCMAKE_C_FLAGS_DEBUG="" -DCMAKE_C_FLAGS_RELEASE="" > $B/cmake.log 2>&1 || { cat $B/cmake.log; exit 2; }
cmake --build $B/lib -j16 > $B/build.log 2>&1 || { tail -50 $B/build.log; exit 2; }
# dictionary for the harnesses: the 64-bit immediates of the library's own machine code (magic values it compares memory against),
# used as contents of caller-owned memory; only rewritten when it changes (the harness objects depend on it)
objdump -d $B/lib/libaws-c-common.a 2>/dev/null | grep -oE 'movabs \$0x[0-9a-f]+' | sed 's/movabs \$//' | sort -u | awk '{print $1"ull,"}' > $B/obj/dict64.inc.new
cmp -s $B/obj/dict64.inc.new $B/obj/dict64.inc 2>/dev/null || mv $B/obj/dict64.inc.new $B/obj/dict64.inc
rm -f $B/obj/dict64.inc.new
INC="-I$REPO/include -I$B/lib/generated/include -I$V/sim -I$V -I$B/obj"
SRCS="sim/sim.cc sim/sim_alloc.cc sim/sim_file.cc runner/main.cc harness/common.cc"
DEFS=""
for h in c15_ring c07_tasksched c08_threadsched c14_logging c20_threads c03_sba c17_memtrace c01_bufio; do
  if [ -f $V/harness/$h.cc ]; then SRCS="$SRCS harness/$h.cc"; id=$(echo $h | cut -c1-3 | tr a-z A-Z); DEFS="$DEFS -DHAVE_$id"; fi
done
[ $FL = B ] && SRCS="$SRCS sim/tsan_shim.cc"
# DEFS stamp: recompile everything when the set of harnesses changes
echo "$DEFS $HFLAGS" | cmp -s - $B/obj/defs.stamp 2>/dev/null || echo "$DEFS $HFLAGS" > $B/obj/defs.stamp
REAL_SRCS=""
for s in $SRCS; do [ -f $V/$s ] && REAL_SRCS="$REAL_SRCS $s"; done
make -s -j16 -f $V/Makefile.harness V=$V B=$B CXX=$CXX HFLAGS="$HFLAGS" DEFS="$DEFS" INC="$INC" SRCS="$REAL_SRCS" > $B/harness.log 2>&1 || { tail -40 $B/harness.log; echo "harness compile failed"; exit 2; }
OBJS=""
for s in $REAL_SRCS; do OBJS="$OBJS $B/obj/$(echo $s | tr / _).o"; done
WRAPS="pthread_once pthread_create pthread_join pthread_detach pthread_mutex_init pthread_mutex_destroy pthread_mutex_lock pthread_mutex_trylock pthread_mutex_unlock pthread_cond_init pthread_cond_destroy pthread_cond_wait pthread_cond_timedwait pthread_cond_signal pthread_cond_broadcast pthread_attr_setaffinity_np pthread_attr_init pthread_attr_setstacksize pthread_attr_getstacksize backtrace pthread_setname_np clock_gettime nanosleep fopen fclose fwrite fread fileno fstat posix_memalign free aws_priority_queue_push_ref"
W=""
for w in $WRAPS; do W="$W -Wl,--wrap=$w"; done
$CXX $LDFLAGS -o $B/dsim.new $OBJS $B/lib/libaws-c-common.a $W -lpthread -ldl -lm
mv $B/dsim.new $B/dsim
echo "built $B/dsim"
