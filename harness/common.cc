#include "harness.h"
#include <errno.h>
#include <aws/common/error.h>
#include <string.h>

extern const Harness H_C15, H_C07, H_C08, H_C14, H_C20, H_C03, H_C17, H_C01;
const Harness *const g_harnesses[] = {
#ifdef HAVE_C15
    &H_C15,
#endif
#ifdef HAVE_C07
    &H_C07,
#endif
#ifdef HAVE_C08
    &H_C08,
#endif
#ifdef HAVE_C14
    &H_C14,
#endif
#ifdef HAVE_C20
    &H_C20,
#endif
#ifdef HAVE_C03
    &H_C03,
#endif
#ifdef HAVE_C17
    &H_C17,
#endif
#ifdef HAVE_C01
    &H_C01,
#endif
    nullptr};

const Harness *find_harness(const char *id) {
    for (int i = 0; g_harnesses[i]; i++)
        if (!strcmp(g_harnesses[i]->id, id)) return g_harnesses[i];
    return nullptr;
}

namespace hdict {
static const uint64_t kWords[] = {
#include "dict64.inc"
    0x0ull};
size_t size() { return sizeof kWords / sizeof kWords[0] - 1; }
uint64_t at(size_t i) { return size() ? kWords[i % size()] : 0; }
} // namespace hdict

namespace hx {
// The calling thread's errno and aws_last_error() are left over from whatever the application did last: before an operation of the
// workload they may hold any value, including the ones the code under test itself compares against. Deterministic in (seed, n).
void poison_errors(uint64_t seed, uint64_t n) {
    uint64_t h = sim::mix64(seed ^ 0xE44044, n);
    static const int errnos[] = {0, ENOMEM, EAGAIN, EINTR, EINVAL, ETIMEDOUT, EBADF, EIO, ENOSPC, EOVERFLOW, EDEADLK, EPERM};
    static const int awserrs[] = {AWS_ERROR_SUCCESS, AWS_ERROR_OOM, AWS_ERROR_SHORT_BUFFER, AWS_ERROR_COND_VARIABLE_TIMED_OUT, AWS_ERROR_INVALID_ARGUMENT,
                                  AWS_ERROR_OVERFLOW_DETECTED, AWS_ERROR_MUTEX_TIMEOUT, AWS_ERROR_THREAD_NO_SUCH_THREAD_ID, AWS_ERROR_FILE_WRITE_FAILURE,
                                  AWS_ERROR_PRIORITY_QUEUE_EMPTY, AWS_ERROR_SYS_CALL_FAILURE, AWS_ERROR_INVALID_FILE_HANDLE};
    int ae = awserrs[(h >> 8) % (sizeof awserrs / sizeof awserrs[0])];
    if (ae == AWS_ERROR_SUCCESS) aws_reset_error(); else aws_raise_error(ae);
    errno = errnos[h % (sizeof errnos / sizeof errnos[0])]; // last: aws_raise_error may touch errno
}
} // namespace hx

namespace hgen {
void sched_config(sim::Rng &r, sim::Plan &p, bool multi_threaded, bool allow_spurious, bool allow_stall, bool allow_clockjump,
                  int starve_tid) {
    p.cfg["sched_seed"] = (int64_t)(r.next() >> 1);
    // half of the plans: every workload operation starts with stale errno / aws_last_error values on the calling thread
    if (sim::mix64((uint64_t)p.seed, 0x9015) & 1) p.cfg["poison_errors"] = 1;
    p.cfg["cpu_cost"] = (int64_t)r.pick(std::vector<int64_t>{10, 100, 100, 1000});
    p.cfg["boot0"] = (int64_t)(1000000000ll + (int64_t)r.below(100000000000ull));
    if (!multi_threaded) {
        p.cfg["strat"] = 1;
        p.cfg["p_switch"] = 0;
        return;
    }
    // strategy (swarm): random, sticky(p), pct(d), starve(t)
    uint64_t k = r.below(100);
    if (k < 20) p.cfg["strat"] = 0;
    else if (k < 60) {
        p.cfg["strat"] = 1;
        p.cfg["p_switch"] = r.pick(std::vector<int64_t>{20000, 100000, 300000, 700000});
    } else if (k < 80) {
        p.cfg["strat"] = 2;
        p.cfg["pct_d"] = (int64_t)r.range(1, 3);
        p.cfg["pct_len"] = r.pick(std::vector<int64_t>{50, 200, 600, 2000});
    } else {
        if (starve_tid >= 0) {
            p.cfg["strat"] = 3;
            p.cfg["starve_tid"] = starve_tid;
            p.cfg["p_switch"] = r.pick(std::vector<int64_t>{100000, 300000, 700000});
        } else {
            p.cfg["strat"] = 1;
            p.cfg["p_switch"] = 50000;
        }
    }
    // fault kinds: each enabled in a subset of runs, with a small rate (most runs make progress between faults)
    bool faults = r.chance(0.6);
    p.cfg["faults"] = faults ? 1 : 0;
    if (faults) {
        if (allow_spurious && r.chance(0.5)) p.cfg["p_spurious"] = r.pick(std::vector<int64_t>{2000, 10000, 50000});
        if (allow_stall && r.chance(0.4)) p.cfg["p_stall"] = r.pick(std::vector<int64_t>{1000, 5000, 20000});
        if (allow_clockjump && r.chance(0.3)) p.cfg["p_clockjump"] = r.pick(std::vector<int64_t>{1000, 5000});
    }
}
} // namespace hgen
