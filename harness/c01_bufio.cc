// C01 (narrow scope) — byte buffers against their environment (DESIGN.md §5 C01):
//   part 0: file -> buffer constructors under I/O faults (simulated file layer)
//   part 1: growth, copy and (secure) release against a simulated allocator, checked against a byte-vector model
// The pure cursor/parse clauses of C01 are not decided here.
#include "harness.h"
#include "../sim/sim_file.h"

#include <aws/common/byte_buf.h>
#include <aws/common/file.h>
extern "C" {
#include <aws/common/private/byte_buf.h> // reserve_smart[_relative]: exported, declared in a private header
}
#include <aws/common/error.h>
#include <aws/common/thread.h>

#include <vector>
#include <string>
#include <errno.h>
#include <string.h>

namespace {

enum { OP_FILE = 1, OP_INIT, OP_INIT_COPY, OP_INIT_COPY_CURSOR, OP_APPEND_DYN, OP_APPEND_BYTE_DYN, OP_RESERVE, OP_RESERVE_REL, OP_RESERVE_SMART,
       OP_RESERVE_SMART_REL, OP_CAT, OP_RESET, OP_SECURE_ZERO, OP_CLEAN_UP, OP_SELF_APPEND, OP_APPEND_STATIC, OP_INIT_CACHE, OP_APPEND_ADJ };

struct Rel { size_t size; bool zero; };
struct Ctx {
    const sim::Plan *plan;
    struct aws_allocator *alloc;
    std::vector<Rel> releases;
    uint64_t ops_done = 0, hist = 1;
};

void on_release(void *p, size_t size, void *ud) {
    Ctx &c = *(Ctx *)ud;
    bool z = true;
    for (size_t i = 0; i < size; i++) if (((uint8_t *)p)[i]) { z = false; break; }
    c.releases.push_back(Rel{size, z});
}

std::vector<uint8_t> gen_bytes(uint64_t seed, size_t n) {
    std::vector<uint8_t> v(n);
    if (n > (1u << 20)) { // large inputs: a random 4 KiB block repeated, with a position-dependent byte every 4 KiB
        std::vector<uint8_t> blk = gen_bytes(seed, 4096);
        for (size_t off = 0; off < n; off += 4096) {
            size_t k = n - off < 4096 ? n - off : 4096;
            memcpy(v.data() + off, blk.data(), k);
            v[off] = (uint8_t)(1 + (off >> 12) % 251);
        }
        return v;
    }
    sim::Rng r(sim::mix64(seed, 0xF11E));
    for (size_t i = 0; i < n; i++) { v[i] = (uint8_t)r.next(); if (v[i] == 0 && (i % 7)) v[i] = 1; }
    return v;
}

// ---------------------------------------------------------------- part 0: file -> buffer
void run_file(Ctx &c, const sim::Op &op) {
    const sim::Plan &p = *c.plan;
    simfile::ReadScript s;
    size_t L = (size_t)p.get("content_len", 0);
    s.content = gen_bytes(p.seed, L);
    int rs = (int)p.get("reported_size_mode", 0);
    int64_t k = p.get("size_delta", 1);
    switch (rs) {
        case 0: s.reported_size = (int64_t)L; break;
        case 1: s.reported_size = 0; break;               // procfs style
        case 2: s.reported_size = 4096; break;            // sysfs style
        case 3: s.reported_size = (int64_t)L + k; break;  // file shrank since stat
        case 4: s.reported_size = (int64_t)L > k ? (int64_t)L - k : 0; break; // file grew since stat
    }
    int fault = (int)p.get("fault", 0);
    if (fault == 1) s.fopen_errno = (int)p.get("fault_errno", ENOENT);
    if (fault == 2) s.fstat_errno = (int)p.get("fault_errno", EIO);
    if (fault == 3) s.fileno_fails = true;
    if (fault == 4) {
        s.read_errno = (int)p.get("fault_errno", EIO);
        s.read_error_at = (size_t)p.get("fault_offset", 0);
        s.read_error_persistent = p.get("fault_transient", 0) == 0;
    }
    if (fault == 5) { // everything is read, then closing the stream reports an error (close(2) on NFS/FUSE): the header says nothing about it,
                      // so the call may succeed with the complete contents or fail cleanly - never fail and keep the contents
        s.close_errno = (int)p.get("fault_errno", EIO);
    }
    s.chunk = (size_t)p.get("chunk", 0);
    s.unbuffered = p.get("unbuffered", 0) != 0;
    s.eager_eof = p.get("eager_eof", 0) != 0;
    simfile::set_read_script(s);
    bool with_hint = op.a != 0;
    size_t hint = (size_t)op.b;
    struct aws_byte_buf out;
    memset(&out, 0x5A, sizeof out);
    c.releases.clear();
    aws_reset_error();
    if (p.get("poison_errors", 0)) hx::poison_errors(p.seed, 1);
    int rc = with_hint ? aws_byte_buf_init_from_file_with_size_hint(&out, c.alloc, simfile::kPath, hint)
                       : aws_byte_buf_init_from_file(&out, c.alloc, simfile::kPath);
    c.ops_done++;
    simfile::ReadStats st = simfile::read_stats();
    // a transient read error (one failed read call, after which the data continues) may legitimately be absorbed:
    // the call may then succeed, provided the contents are complete and correct (checked below)
    // Likewise a failing fstat/fileno (the size query) or a failing close need not fail the call - an implementation may measure the
    // file another way or ignore the close - as long as a reported success comes with the complete, correct contents.
    bool soft = !with_hint && (s.fstat_errno || s.fileno_fails);
    bool transient = (st.error_fired && !s.read_error_persistent) || st.close_error_fired || soft;
    bool fault_hit = s.fopen_errno || (st.error_fired && !(st.error_fired && !s.read_error_persistent));
    if (transient) sim::probe(rc == AWS_OP_SUCCESS ? "transient_read_error_absorbed" : "transient_read_error_reported");
    if (st.opens != 1) sim::violation("c01:file-open", "the file was opened %d times", st.opens);
    if (st.closes != (s.fopen_errno ? 0 : 1)) sim::violation("c01:file-close", "the stream was closed %d times (opened: %s)", st.closes, s.fopen_errno ? "no" : "yes");
    if (rc == AWS_OP_SUCCESS) {
        if (fault_hit) sim::violation("c01:file-error-ignored", "an I/O fault fired (kind %d) but the call reported success", fault);
        if (out.len != L) sim::violation("c01:file-len", "read %zu bytes, the file has %zu (reported size %lld, hint %s)", out.len, L, (long long)s.reported_size, with_hint ? "explicit" : "fstat");
        if (L && memcmp(out.buffer, s.content.data(), L) != 0) sim::violation("c01:file-content", "buffer contents differ from the file");
        if (!(out.len < out.capacity)) sim::violation("c01:file-terminator", "no room for the terminator: len %zu capacity %zu", out.len, out.capacity);
        if (out.buffer[out.len] != 0) sim::violation("c01:file-terminator", "byte after the contents is not NUL");
        if (out.allocator != c.alloc) sim::violation("c01:file-alloc", "buffer does not carry the allocator");
        if (simalloc::block_size(out.buffer) != out.capacity) sim::violation("c01:file-capacity", "capacity field %zu does not match the allocation", out.capacity);
        simalloc::check_all("after init_from_file");
        aws_byte_buf_clean_up(&out);
        sim::probe("file_read_ok");
    } else {
        if (!fault_hit && !transient) sim::violation("c01:file-spurious-error", "call failed (aws error %d) although no I/O fault fired", aws_last_error());
        int err = aws_last_error();
        if (err == 0 || !strcmp(aws_error_name(err), "Unknown Error Code")) sim::violation("c01:file-errcode", "failure reported with unregistered error code %d", err);
        const uint8_t *ob = (const uint8_t *)&out;
        for (size_t i = 0; i < sizeof out; i++) if (ob[i]) sim::violation("c01:file-out-not-zeroed", "failed call left the output struct non-zero (byte %zu)", i);
        if (!c.releases.empty() && !c.releases.back().zero)
            sim::violation("secure-zero", "on the error path the partially read buffer (%zu bytes) was handed back to the allocator without being zeroed", c.releases.back().size);
        sim::probe("file_read_failed");
    }
    c.hist = sim::mix64(c.hist, (uint64_t)rc * 31 + st.reads * 7 + (uint64_t)fault);
    simalloc::expect_balanced("after init_from_file");
}

// ---------------------------------------------------------------- part 1: growth / copy / secure release
struct Model {
    struct aws_byte_buf buf;
    std::vector<uint8_t> m; // contents [0, len)
    bool inited = false;
};

void snapshot_check(Ctx &c, Model &M, const char *what) {
    if (!M.inited) return;
    if (!aws_byte_buf_is_valid(&M.buf)) sim::violation("c01:invalid", "%s: buffer validity predicate false", what);
    if (M.buf.len != M.m.size()) sim::violation("c01:len", "%s: len %zu, model %zu", what, M.buf.len, M.m.size());
    if (M.buf.len > M.buf.capacity) sim::violation("c01:len", "%s: len %zu > capacity %zu", what, M.buf.len, M.buf.capacity);
    if (M.buf.len && memcmp(M.buf.buffer, M.m.data(), M.buf.len) != 0) {
        size_t i = 0;
        while (M.buf.buffer[i] == M.m[i]) i++;
        sim::violation("c01:content", "%s: previously written byte %zu changed", what, i);
    }
    if (M.buf.buffer && simalloc::block_size(M.buf.buffer) != M.buf.capacity)
        sim::violation("c01:capacity", "%s: capacity field %zu does not match the allocation (%zu)", what, M.buf.capacity, simalloc::block_size(M.buf.buffer));
    (void)c;
}

void expect_unchanged(const struct aws_byte_buf &before, Model &M, const char *what) {
    if (M.buf.buffer != before.buffer || M.buf.len != before.len || M.buf.capacity != before.capacity || M.buf.allocator != before.allocator)
        sim::violation("c01:failed-op-changed", "%s reported failure but changed the buffer (len %zu->%zu, capacity %zu->%zu)", what, before.len, M.buf.len, before.capacity, M.buf.capacity);
}

// aws_byte_buf_init_cache_and_update_cursors is variadic: one call site per argument count
int call_init_cache(struct aws_byte_buf *dest, struct aws_allocator *a, struct aws_byte_cursor **cp, int n) {
    switch (n) {
        case 0: return aws_byte_buf_init_cache_and_update_cursors(dest, a, NULL);
        case 1: return aws_byte_buf_init_cache_and_update_cursors(dest, a, cp[0], NULL);
        case 2: return aws_byte_buf_init_cache_and_update_cursors(dest, a, cp[0], cp[1], NULL);
        case 3: return aws_byte_buf_init_cache_and_update_cursors(dest, a, cp[0], cp[1], cp[2], NULL);
        case 4: return aws_byte_buf_init_cache_and_update_cursors(dest, a, cp[0], cp[1], cp[2], cp[3], NULL);
        case 5: return aws_byte_buf_init_cache_and_update_cursors(dest, a, cp[0], cp[1], cp[2], cp[3], cp[4], NULL);
        case 6: return aws_byte_buf_init_cache_and_update_cursors(dest, a, cp[0], cp[1], cp[2], cp[3], cp[4], cp[5], NULL);
        case 7: return aws_byte_buf_init_cache_and_update_cursors(dest, a, cp[0], cp[1], cp[2], cp[3], cp[4], cp[5], cp[6], NULL);
        case 8: return aws_byte_buf_init_cache_and_update_cursors(dest, a, cp[0], cp[1], cp[2], cp[3], cp[4], cp[5], cp[6], cp[7], NULL);
        case 9: return aws_byte_buf_init_cache_and_update_cursors(dest, a, cp[0], cp[1], cp[2], cp[3], cp[4], cp[5], cp[6], cp[7], cp[8], NULL);
        case 10: return aws_byte_buf_init_cache_and_update_cursors(dest, a, cp[0], cp[1], cp[2], cp[3], cp[4], cp[5], cp[6], cp[7], cp[8], cp[9], NULL);
        case 11: return aws_byte_buf_init_cache_and_update_cursors(dest, a, cp[0], cp[1], cp[2], cp[3], cp[4], cp[5], cp[6], cp[7], cp[8], cp[9], cp[10], NULL);
        case 12: return aws_byte_buf_init_cache_and_update_cursors(dest, a, cp[0], cp[1], cp[2], cp[3], cp[4], cp[5], cp[6], cp[7], cp[8], cp[9], cp[10], cp[11], NULL);
        case 13: return aws_byte_buf_init_cache_and_update_cursors(dest, a, cp[0], cp[1], cp[2], cp[3], cp[4], cp[5], cp[6], cp[7], cp[8], cp[9], cp[10], cp[11], cp[12], NULL);
        case 14: return aws_byte_buf_init_cache_and_update_cursors(dest, a, cp[0], cp[1], cp[2], cp[3], cp[4], cp[5], cp[6], cp[7], cp[8], cp[9], cp[10], cp[11], cp[12], cp[13], NULL);
        case 15: return aws_byte_buf_init_cache_and_update_cursors(dest, a, cp[0], cp[1], cp[2], cp[3], cp[4], cp[5], cp[6], cp[7], cp[8], cp[9], cp[10], cp[11], cp[12], cp[13], cp[14], NULL);
        case 16: return aws_byte_buf_init_cache_and_update_cursors(dest, a, cp[0], cp[1], cp[2], cp[3], cp[4], cp[5], cp[6], cp[7], cp[8], cp[9], cp[10], cp[11], cp[12], cp[13], cp[14], cp[15], NULL);
        case 17: return aws_byte_buf_init_cache_and_update_cursors(dest, a, cp[0], cp[1], cp[2], cp[3], cp[4], cp[5], cp[6], cp[7], cp[8], cp[9], cp[10], cp[11], cp[12], cp[13], cp[14], cp[15], cp[16], NULL);
        case 18: return aws_byte_buf_init_cache_and_update_cursors(dest, a, cp[0], cp[1], cp[2], cp[3], cp[4], cp[5], cp[6], cp[7], cp[8], cp[9], cp[10], cp[11], cp[12], cp[13], cp[14], cp[15], cp[16], cp[17], NULL);
        case 19: return aws_byte_buf_init_cache_and_update_cursors(dest, a, cp[0], cp[1], cp[2], cp[3], cp[4], cp[5], cp[6], cp[7], cp[8], cp[9], cp[10], cp[11], cp[12], cp[13], cp[14], cp[15], cp[16], cp[17], cp[18], NULL);
        case 20: return aws_byte_buf_init_cache_and_update_cursors(dest, a, cp[0], cp[1], cp[2], cp[3], cp[4], cp[5], cp[6], cp[7], cp[8], cp[9], cp[10], cp[11], cp[12], cp[13], cp[14], cp[15], cp[16], cp[17], cp[18], cp[19], NULL);
        case 21: return aws_byte_buf_init_cache_and_update_cursors(dest, a, cp[0], cp[1], cp[2], cp[3], cp[4], cp[5], cp[6], cp[7], cp[8], cp[9], cp[10], cp[11], cp[12], cp[13], cp[14], cp[15], cp[16], cp[17], cp[18], cp[19], cp[20], NULL);
        case 22: return aws_byte_buf_init_cache_and_update_cursors(dest, a, cp[0], cp[1], cp[2], cp[3], cp[4], cp[5], cp[6], cp[7], cp[8], cp[9], cp[10], cp[11], cp[12], cp[13], cp[14], cp[15], cp[16], cp[17], cp[18], cp[19], cp[20], cp[21], NULL);
        case 23: return aws_byte_buf_init_cache_and_update_cursors(dest, a, cp[0], cp[1], cp[2], cp[3], cp[4], cp[5], cp[6], cp[7], cp[8], cp[9], cp[10], cp[11], cp[12], cp[13], cp[14], cp[15], cp[16], cp[17], cp[18], cp[19], cp[20], cp[21], cp[22], NULL);
        case 24: return aws_byte_buf_init_cache_and_update_cursors(dest, a, cp[0], cp[1], cp[2], cp[3], cp[4], cp[5], cp[6], cp[7], cp[8], cp[9], cp[10], cp[11], cp[12], cp[13], cp[14], cp[15], cp[16], cp[17], cp[18], cp[19], cp[20], cp[21], cp[22], cp[23], NULL);
        case 25: return aws_byte_buf_init_cache_and_update_cursors(dest, a, cp[0], cp[1], cp[2], cp[3], cp[4], cp[5], cp[6], cp[7], cp[8], cp[9], cp[10], cp[11], cp[12], cp[13], cp[14], cp[15], cp[16], cp[17], cp[18], cp[19], cp[20], cp[21], cp[22], cp[23], cp[24], NULL);
        case 26: return aws_byte_buf_init_cache_and_update_cursors(dest, a, cp[0], cp[1], cp[2], cp[3], cp[4], cp[5], cp[6], cp[7], cp[8], cp[9], cp[10], cp[11], cp[12], cp[13], cp[14], cp[15], cp[16], cp[17], cp[18], cp[19], cp[20], cp[21], cp[22], cp[23], cp[24], cp[25], NULL);
        case 27: return aws_byte_buf_init_cache_and_update_cursors(dest, a, cp[0], cp[1], cp[2], cp[3], cp[4], cp[5], cp[6], cp[7], cp[8], cp[9], cp[10], cp[11], cp[12], cp[13], cp[14], cp[15], cp[16], cp[17], cp[18], cp[19], cp[20], cp[21], cp[22], cp[23], cp[24], cp[25], cp[26], NULL);
        case 28: return aws_byte_buf_init_cache_and_update_cursors(dest, a, cp[0], cp[1], cp[2], cp[3], cp[4], cp[5], cp[6], cp[7], cp[8], cp[9], cp[10], cp[11], cp[12], cp[13], cp[14], cp[15], cp[16], cp[17], cp[18], cp[19], cp[20], cp[21], cp[22], cp[23], cp[24], cp[25], cp[26], cp[27], NULL);
        case 29: return aws_byte_buf_init_cache_and_update_cursors(dest, a, cp[0], cp[1], cp[2], cp[3], cp[4], cp[5], cp[6], cp[7], cp[8], cp[9], cp[10], cp[11], cp[12], cp[13], cp[14], cp[15], cp[16], cp[17], cp[18], cp[19], cp[20], cp[21], cp[22], cp[23], cp[24], cp[25], cp[26], cp[27], cp[28], NULL);
        case 30: return aws_byte_buf_init_cache_and_update_cursors(dest, a, cp[0], cp[1], cp[2], cp[3], cp[4], cp[5], cp[6], cp[7], cp[8], cp[9], cp[10], cp[11], cp[12], cp[13], cp[14], cp[15], cp[16], cp[17], cp[18], cp[19], cp[20], cp[21], cp[22], cp[23], cp[24], cp[25], cp[26], cp[27], cp[28], cp[29], NULL);
        case 31: return aws_byte_buf_init_cache_and_update_cursors(dest, a, cp[0], cp[1], cp[2], cp[3], cp[4], cp[5], cp[6], cp[7], cp[8], cp[9], cp[10], cp[11], cp[12], cp[13], cp[14], cp[15], cp[16], cp[17], cp[18], cp[19], cp[20], cp[21], cp[22], cp[23], cp[24], cp[25], cp[26], cp[27], cp[28], cp[29], cp[30], NULL);
        case 32: return aws_byte_buf_init_cache_and_update_cursors(dest, a, cp[0], cp[1], cp[2], cp[3], cp[4], cp[5], cp[6], cp[7], cp[8], cp[9], cp[10], cp[11], cp[12], cp[13], cp[14], cp[15], cp[16], cp[17], cp[18], cp[19], cp[20], cp[21], cp[22], cp[23], cp[24], cp[25], cp[26], cp[27], cp[28], cp[29], cp[30], cp[31], NULL);
        case 33: return aws_byte_buf_init_cache_and_update_cursors(dest, a, cp[0], cp[1], cp[2], cp[3], cp[4], cp[5], cp[6], cp[7], cp[8], cp[9], cp[10], cp[11], cp[12], cp[13], cp[14], cp[15], cp[16], cp[17], cp[18], cp[19], cp[20], cp[21], cp[22], cp[23], cp[24], cp[25], cp[26], cp[27], cp[28], cp[29], cp[30], cp[31], cp[32], NULL);
        case 34: return aws_byte_buf_init_cache_and_update_cursors(dest, a, cp[0], cp[1], cp[2], cp[3], cp[4], cp[5], cp[6], cp[7], cp[8], cp[9], cp[10], cp[11], cp[12], cp[13], cp[14], cp[15], cp[16], cp[17], cp[18], cp[19], cp[20], cp[21], cp[22], cp[23], cp[24], cp[25], cp[26], cp[27], cp[28], cp[29], cp[30], cp[31], cp[32], cp[33], NULL);
        case 35: return aws_byte_buf_init_cache_and_update_cursors(dest, a, cp[0], cp[1], cp[2], cp[3], cp[4], cp[5], cp[6], cp[7], cp[8], cp[9], cp[10], cp[11], cp[12], cp[13], cp[14], cp[15], cp[16], cp[17], cp[18], cp[19], cp[20], cp[21], cp[22], cp[23], cp[24], cp[25], cp[26], cp[27], cp[28], cp[29], cp[30], cp[31], cp[32], cp[33], cp[34], NULL);
        case 36: return aws_byte_buf_init_cache_and_update_cursors(dest, a, cp[0], cp[1], cp[2], cp[3], cp[4], cp[5], cp[6], cp[7], cp[8], cp[9], cp[10], cp[11], cp[12], cp[13], cp[14], cp[15], cp[16], cp[17], cp[18], cp[19], cp[20], cp[21], cp[22], cp[23], cp[24], cp[25], cp[26], cp[27], cp[28], cp[29], cp[30], cp[31], cp[32], cp[33], cp[34], cp[35], NULL);
        case 37: return aws_byte_buf_init_cache_and_update_cursors(dest, a, cp[0], cp[1], cp[2], cp[3], cp[4], cp[5], cp[6], cp[7], cp[8], cp[9], cp[10], cp[11], cp[12], cp[13], cp[14], cp[15], cp[16], cp[17], cp[18], cp[19], cp[20], cp[21], cp[22], cp[23], cp[24], cp[25], cp[26], cp[27], cp[28], cp[29], cp[30], cp[31], cp[32], cp[33], cp[34], cp[35], cp[36], NULL);
        case 38: return aws_byte_buf_init_cache_and_update_cursors(dest, a, cp[0], cp[1], cp[2], cp[3], cp[4], cp[5], cp[6], cp[7], cp[8], cp[9], cp[10], cp[11], cp[12], cp[13], cp[14], cp[15], cp[16], cp[17], cp[18], cp[19], cp[20], cp[21], cp[22], cp[23], cp[24], cp[25], cp[26], cp[27], cp[28], cp[29], cp[30], cp[31], cp[32], cp[33], cp[34], cp[35], cp[36], cp[37], NULL);
        case 39: return aws_byte_buf_init_cache_and_update_cursors(dest, a, cp[0], cp[1], cp[2], cp[3], cp[4], cp[5], cp[6], cp[7], cp[8], cp[9], cp[10], cp[11], cp[12], cp[13], cp[14], cp[15], cp[16], cp[17], cp[18], cp[19], cp[20], cp[21], cp[22], cp[23], cp[24], cp[25], cp[26], cp[27], cp[28], cp[29], cp[30], cp[31], cp[32], cp[33], cp[34], cp[35], cp[36], cp[37], cp[38], NULL);
        case 40: return aws_byte_buf_init_cache_and_update_cursors(dest, a, cp[0], cp[1], cp[2], cp[3], cp[4], cp[5], cp[6], cp[7], cp[8], cp[9], cp[10], cp[11], cp[12], cp[13], cp[14], cp[15], cp[16], cp[17], cp[18], cp[19], cp[20], cp[21], cp[22], cp[23], cp[24], cp[25], cp[26], cp[27], cp[28], cp[29], cp[30], cp[31], cp[32], cp[33], cp[34], cp[35], cp[36], cp[37], cp[38], cp[39], NULL);
    }
    return -2;
}

void run_growth(Ctx &c) {
    Model M;
    AWS_ZERO_STRUCT(M.buf);
    for (const sim::Op &op : c.plan->ops) {
        if (op.kind == OP_FILE) continue;
        if (c.plan->get("poison_errors", 0)) hx::poison_errors(c.plan->seed, sim::seq());
        c.ops_done++;
        c.hist = sim::mix64(c.hist, (uint64_t)op.kind * 131 + (uint64_t)op.a);
        if (!M.inited && op.kind != OP_INIT && op.kind != OP_INIT_COPY_CURSOR && op.kind != OP_INIT_CACHE) {
            if (aws_byte_buf_init(&M.buf, c.alloc, 0)) sim::violation("c01:init", "init(0) failed");
            M.inited = true; M.m.clear();
        }
        struct aws_byte_buf before = M.buf;
        bool secure = op.d != 0;
        switch (op.kind) {
            case OP_INIT: {
                if (M.inited) { aws_byte_buf_clean_up(&M.buf); }
                size_t cap = (size_t)op.a;
                if (aws_byte_buf_init(&M.buf, c.alloc, cap)) sim::violation("c01:init", "init(%zu) failed", cap);
                if (M.buf.len != 0 || M.buf.capacity != cap || (cap == 0) != (M.buf.buffer == nullptr)) sim::violation("c01:init", "init(%zu): len %zu capacity %zu", cap, M.buf.len, M.buf.capacity);
                M.inited = true; M.m.clear();
                break;
            }
            case OP_INIT_COPY_CURSOR: {
                if (M.inited) aws_byte_buf_clean_up(&M.buf);
                std::vector<uint8_t> src = gen_bytes((uint64_t)op.b, (size_t)op.a);
                struct aws_byte_cursor cur = aws_byte_cursor_from_array(src.data(), src.size());
                if (aws_byte_buf_init_copy_from_cursor(&M.buf, c.alloc, cur)) sim::violation("c01:init", "init_copy_from_cursor failed");
                M.inited = true; M.m = src;
                break;
            }
            case OP_INIT_CACHE: {
                // n cursors (0..40) copied into one freshly allocated buffer and re-pointed into it; op.d: one cursor claims a length that
                // makes the total overflow (must fail before anything is allocated or dereferenced)
                if (M.inited) aws_byte_buf_clean_up(&M.buf);
                M.inited = false;
                int n = (int)(op.a % 41);
                sim::Rng pr(sim::mix64((uint64_t)op.b, 0xCAC4E));
                std::vector<std::vector<uint8_t>> pieces((size_t)n);
                std::vector<struct aws_byte_cursor> cur((size_t)n);
                struct aws_byte_cursor *cp[41];
                std::vector<uint8_t> all;
                for (int i = 0; i < n; i++) {
                    size_t len = pr.chance(0.15) ? 0 : (size_t)pr.range(1, pr.chance(0.1) ? 300 : 12);
                    pieces[(size_t)i] = gen_bytes(pr.next(), len);
                    cur[(size_t)i] = len ? aws_byte_cursor_from_array(pieces[(size_t)i].data(), len) : aws_byte_cursor_from_array(nullptr, 0);
                    cp[i] = &cur[(size_t)i];
                    all.insert(all.end(), pieces[(size_t)i].begin(), pieces[(size_t)i].end());
                }
                int bomb = (op.d && n >= 2) ? (int)pr.range(0, n - 1) : -1;
                if (bomb >= 0 && all.size() - pieces[(size_t)bomb].size() < 4) bomb = -1; // the total would not overflow: ordinary call
                if (bomb >= 0) { cur[(size_t)bomb].len = SIZE_MAX - 3; if (!cur[(size_t)bomb].ptr) cur[(size_t)bomb].ptr = (uint8_t *)"x"; }
                std::vector<struct aws_byte_cursor> before_cur = cur;
                size_t blocks_before = simalloc::live_count();
                struct aws_byte_buf out;
                memset(&out, 0x5a, sizeof out);
                int rc = call_init_cache(&out, c.alloc, cp, n);
                sim::probe(n > 16 ? "init_cache_more_than_16_cursors" : "init_cache_up_to_16_cursors");
                if (bomb >= 0) {
                    if (rc == AWS_OP_SUCCESS) sim::violation("c01:overflow", "init_cache_and_update_cursors succeeded although the cursor lengths add up to more than SIZE_MAX");
                    if (simalloc::live_count() != blocks_before) sim::violation("c01:failed-op-changed", "failed init_cache_and_update_cursors left an allocation behind");
                    for (int i = 0; i < n; i++)
                        if (cur[(size_t)i].ptr != before_cur[(size_t)i].ptr || cur[(size_t)i].len != before_cur[(size_t)i].len)
                            sim::violation("c01:failed-op-changed", "failed init_cache_and_update_cursors modified cursor %d", i);
                    sim::probe("init_cache_total_length_overflow");
                    if (aws_byte_buf_init(&M.buf, c.alloc, 0)) sim::violation("c01:init", "init(0) failed");
                    M.inited = true; M.m.clear();
                    break;
                }
                if (rc != AWS_OP_SUCCESS) sim::violation("c01:init", "init_cache_and_update_cursors(%d cursors) failed", n);
                M.buf = out; M.inited = true; M.m = all;
                if (out.len != all.size() || out.capacity != all.size())
                    sim::violation("c01:len", "init_cache_and_update_cursors(%d cursors): len %zu capacity %zu, the cursors add up to %zu", n, out.len, out.capacity, all.size());
                size_t off = 0;
                for (int i = 0; i < n; i++) {
                    size_t len = pieces[(size_t)i].size();
                    if (cur[(size_t)i].len != len) sim::violation("c01:cursor", "init_cache_and_update_cursors: cursor %d length changed (%zu -> %zu)", i, len, cur[(size_t)i].len);
                    if (len && cur[(size_t)i].ptr != out.buffer + off)
                        sim::violation("c01:cursor", "init_cache_and_update_cursors(%d cursors): cursor %d does not reference the buffer at offset %zu", n, i, off);
                    off += len;
                }
                break;
            }
            case OP_APPEND_ADJ: {
                // The source is a different object that happens to start on the first byte behind the destination's block (an everyday
                // situation with allocators that pack blocks back to back): it is not an alias of the destination.
                if (!M.buf.buffer || M.buf.capacity == 0) break;
                const size_t n = 16;
                size_t room = M.buf.capacity - M.buf.len;
                if (room >= n) { // fill the buffer up first so that the append below has to grow it
                    std::vector<uint8_t> fill = gen_bytes((uint64_t)op.b, room - 5);
                    struct aws_byte_cursor fc = aws_byte_cursor_from_array(fill.data(), fill.size());
                    if (aws_byte_buf_append(&M.buf, &fc)) sim::violation("c01:append", "append of %zu bytes into %zu free bytes failed", fill.size(), room);
                    M.m.insert(M.m.end(), fill.begin(), fill.end());
                }
                uint8_t *src = simalloc::lend_tail(M.buf.buffer, n);
                if (!src) break;
                if (src != M.buf.buffer + M.buf.capacity) sim::violation("c01:harness", "neighbouring object is not adjacent");
                std::vector<uint8_t> data = gen_bytes((uint64_t)op.b ^ 0x5A5A, n);
                memcpy(src, data.data(), n);
                struct aws_byte_cursor cur = aws_byte_cursor_from_array(src, n);
                if (secure) simalloc::expect_zero_on_release(M.buf.buffer);
                int rc = secure ? aws_byte_buf_append_dynamic_secure(&M.buf, &cur) : aws_byte_buf_append_dynamic(&M.buf, &cur);
                if (rc) sim::violation("c01:append", "append_dynamic of a neighbouring object failed");
                M.m.insert(M.m.end(), data.begin(), data.end());
                sim::probe("append_of_an_object_adjacent_to_the_destination_block");
                break;
            }
            case OP_INIT_COPY: {
                struct aws_byte_buf copy;
                if (aws_byte_buf_init_copy(&copy, c.alloc, &M.buf)) sim::violation("c01:init", "init_copy failed");
                if (copy.len != M.buf.len || copy.capacity != M.buf.capacity || (copy.len && memcmp(copy.buffer, M.buf.buffer, copy.len)))
                    sim::violation("c01:init-copy", "copy differs from its source (len %zu/%zu capacity %zu/%zu)", copy.len, M.buf.len, copy.capacity, M.buf.capacity);
                if (copy.buffer && copy.buffer == M.buf.buffer) sim::violation("c01:init-copy", "copy shares storage with its source");
                // continue with the copy, release the original
                aws_byte_buf_clean_up(&M.buf);
                M.buf = copy;
                break;
            }
            case OP_APPEND_DYN: case OP_SELF_APPEND: {
                std::vector<uint8_t> src;
                struct aws_byte_cursor cur;
                if (op.kind == OP_SELF_APPEND && M.buf.len) {
                    size_t off = (size_t)op.a % M.buf.len, n = 1 + (size_t)op.b % (M.buf.len - off);
                    src.assign(M.m.begin() + (long)off, M.m.begin() + (long)(off + n));
                    cur = aws_byte_cursor_from_array(M.buf.buffer + off, n); // aliasing the destination: allowed for the dynamic append
                    sim::probe("self_append");
                } else {
                    src = gen_bytes((uint64_t)op.b, (size_t)op.a);
                    cur = aws_byte_cursor_from_array(src.data(), src.size());
                }
                if (secure && M.buf.buffer) simalloc::expect_zero_on_release(M.buf.buffer);
                int rc = secure ? aws_byte_buf_append_dynamic_secure(&M.buf, &cur) : aws_byte_buf_append_dynamic(&M.buf, &cur);
                if (rc) sim::violation("c01:append", "append_dynamic failed with error %d", aws_last_error());
                M.m.insert(M.m.end(), src.begin(), src.end());
                if (M.buf.buffer != before.buffer) sim::probe(secure ? "secure_growth_released_old_block" : "growth_released_old_block");
                break;
            }
            case OP_APPEND_BYTE_DYN: {
                if (secure && M.buf.buffer) simalloc::expect_zero_on_release(M.buf.buffer);
                int rc = secure ? aws_byte_buf_append_byte_dynamic_secure(&M.buf, (uint8_t)op.a) : aws_byte_buf_append_byte_dynamic(&M.buf, (uint8_t)op.a);
                if (rc) sim::violation("c01:append", "append_byte_dynamic failed");
                M.m.push_back((uint8_t)op.a);
                break;
            }
            case OP_APPEND_STATIC: {
                // plain append: succeeds iff it fits, and never reallocates
                std::vector<uint8_t> src = gen_bytes((uint64_t)op.b, (size_t)op.a);
                struct aws_byte_cursor cur = aws_byte_cursor_from_array(src.data(), src.size());
                bool fits = M.buf.capacity - M.buf.len >= src.size();
                int rc = aws_byte_buf_append(&M.buf, &cur);
                if (fits != (rc == AWS_OP_SUCCESS)) sim::violation("c01:append", "append of %zu bytes into %zu free: rc %d", src.size(), before.capacity - before.len, rc);
                if (rc) { expect_unchanged(before, M, "append"); if (aws_last_error() != AWS_ERROR_DEST_COPY_TOO_SMALL) sim::violation("c01:errcode", "append raised %d", aws_last_error()); }
                else M.m.insert(M.m.end(), src.begin(), src.end());
                break;
            }
            case OP_RESERVE: case OP_RESERVE_SMART: {
                size_t want = (size_t)op.a;
                int rc = op.kind == OP_RESERVE ? aws_byte_buf_reserve(&M.buf, want) : aws_byte_buf_reserve_smart(&M.buf, want);
                if (rc) sim::violation("c01:reserve", "reserve(%zu) failed", want);
                if (M.buf.capacity < want) sim::violation("c01:reserve", "reserve(%zu) left capacity %zu", want, M.buf.capacity);
                if (want <= before.capacity && (M.buf.buffer != before.buffer || M.buf.capacity != before.capacity)) sim::violation("c01:reserve", "reserve within capacity reallocated");
                break;
            }
            case OP_RESERVE_REL: case OP_RESERVE_SMART_REL: {
                size_t add = (size_t)op.a;
                bool overflow = op.b != 0; // request len + additional that overflows size_t: must fail before reaching the allocator
                if (overflow) add = SIZE_MAX - (size_t)(op.a % 3) - (M.buf.len ? 0 : 0);
                if (overflow && M.buf.len + add >= M.buf.len && M.buf.len + add != 0 && M.buf.len <= SIZE_MAX - add) {
                    // does not actually overflow for this len (len == 0): skip rather than ask the allocator for SIZE_MAX bytes
                    break;
                }
                uint64_t allocs0 = simalloc::total_allocs();
                int rc = op.kind == OP_RESERVE_REL ? aws_byte_buf_reserve_relative(&M.buf, add) : aws_byte_buf_reserve_smart_relative(&M.buf, add);
                if (overflow) {
                    if (rc == AWS_OP_SUCCESS) sim::violation("c01:overflow", "reserve_relative(len %zu + %zu) overflows but reported success", before.len, add);
                    if (aws_last_error() != AWS_ERROR_OVERFLOW_DETECTED) sim::violation("c01:errcode", "overflowing reserve raised %d", aws_last_error());
                    if (simalloc::total_allocs() != allocs0) sim::violation("c01:overflow", "overflowing request reached the allocator");
                    expect_unchanged(before, M, "reserve_relative");
                    sim::probe("size_overflow_refused");
                } else {
                    if (rc) sim::violation("c01:reserve", "reserve_relative(%zu) failed", add);
                    if (M.buf.capacity - M.buf.len < add) sim::violation("c01:reserve", "reserve_relative(%zu): only %zu free", add, M.buf.capacity - M.buf.len);
                }
                break;
            }
            case OP_CAT: {
                // concatenation of three static buffers into the (non-growing) destination; documented to stop part-way
                std::vector<uint8_t> a = gen_bytes((uint64_t)op.d + 1, (size_t)op.a), b = gen_bytes((uint64_t)op.d + 2, (size_t)op.b), d = gen_bytes((uint64_t)op.d + 3, (size_t)op.c);
                struct aws_byte_buf ba = aws_byte_buf_from_array(a.data(), a.size()), bb = aws_byte_buf_from_array(b.data(), b.size()), bd = aws_byte_buf_from_array(d.data(), d.size());
                size_t room = M.buf.capacity - M.buf.len;
                int rc = aws_byte_buf_cat(&M.buf, 3, &ba, &bb, &bd);
                std::vector<uint8_t> want = M.m;
                bool all = true;
                for (auto *v : {&a, &b, &d}) { if (v->size() <= room) { want.insert(want.end(), v->begin(), v->end()); room -= v->size(); } else { all = false; break; } }
                if (all != (rc == AWS_OP_SUCCESS)) sim::violation("c01:cat", "cat: rc %d, model expects %s", rc, all ? "success" : "failure");
                if (M.buf.buffer != before.buffer || M.buf.capacity != before.capacity) sim::violation("c01:cat", "cat reallocated the destination");
                M.m = want;
                break;
            }
            case OP_RESET: {
                bool zero = op.a != 0;
                aws_byte_buf_reset(&M.buf, zero);
                M.m.clear();
                if (M.buf.buffer != before.buffer || M.buf.capacity != before.capacity) sim::violation("c01:reset", "reset changed the storage");
                if (zero) for (size_t i = 0; i < M.buf.capacity; i++) if (M.buf.buffer[i]) sim::violation("secure-zero", "reset(zero_contents) left byte %zu non-zero", i);
                break;
            }
            case OP_SECURE_ZERO: {
                aws_byte_buf_secure_zero(&M.buf);
                M.m.clear();
                for (size_t i = 0; i < M.buf.capacity; i++) if (M.buf.buffer[i]) sim::violation("secure-zero", "secure_zero left byte %zu non-zero", i);
                break;
            }
            case OP_CLEAN_UP: {
                if (secure) {
                    if (M.buf.buffer) { simalloc::expect_zero_on_release(M.buf.buffer); sim::probe("clean_up_secure_released_block"); }
                    aws_byte_buf_clean_up_secure(&M.buf);
                } else aws_byte_buf_clean_up(&M.buf);
                if (M.buf.buffer || M.buf.len || M.buf.capacity || M.buf.allocator) sim::violation("c01:clean-up", "clean_up left fields set");
                if (before.buffer && simalloc::block_size(before.buffer) != (size_t)-1) sim::violation("c01:clean-up", "clean_up did not release the storage");
                M.inited = false; M.m.clear();
                break;
            }
        }
        if (M.inited && M.buf.buffer) simalloc::clear_expect_zero(M.buf.buffer);
        snapshot_check(c, M, "after operation");
        simalloc::check_all("after operation");
    }
    if (M.inited) aws_byte_buf_clean_up(&M.buf);
}

// ---------------------------------------------------------------- a second thread growing a buffer of its own
// Buffers are independent objects: what one thread appends to its buffer must not depend on what another thread does to a different
// buffer at the same time. The only decision points inside the buffer code are the allocator calls of the growth path.
struct PeerArg { Ctx *c; int n; uint64_t seed; };
void peer_fn(void *arg) {
    PeerArg *pa = (PeerArg *)arg;
    Ctx &c = *pa->c;
    struct aws_byte_buf b;
    std::vector<uint8_t> m;
    if (aws_byte_buf_init(&b, c.alloc, 0)) sim::violation("c01:init", "peer: init(0) failed");
    sim::Rng r(sim::mix64(pa->seed, 0x9EE5));
    for (int i = 0; i < pa->n; i++) {
        uint64_t k = r.below(100);
        uint8_t v = (uint8_t)(0x80 | (i * 7 + 3)); // main-thread bytes of the same run are generated independently
        int rc;
        if (k < 70) { rc = aws_byte_buf_append_byte_dynamic(&b, v); m.push_back(v); }
        else if (k < 85) { rc = aws_byte_buf_append_byte_dynamic_secure(&b, v); m.push_back(v); }
        else {
            uint8_t three[3] = {v, (uint8_t)(v ^ 0x55), (uint8_t)(v + 1)};
            struct aws_byte_cursor cur = aws_byte_cursor_from_array(three, 3);
            rc = aws_byte_buf_append_dynamic(&b, &cur);
            m.insert(m.end(), three, three + 3);
        }
        if (rc) sim::violation("c01:append", "peer thread: dynamic append failed");
        if (b.len != m.size() || b.len > b.capacity) sim::violation("c01:len", "peer thread: len %zu, model %zu, capacity %zu", b.len, m.size(), b.capacity);
        if (memcmp(b.buffer, m.data(), b.len) != 0) {
            size_t j = 0;
            while (b.buffer[j] == m[j]) j++;
            sim::violation("c01:content", "peer thread: byte %zu of its own buffer is 0x%02x, it appended 0x%02x (another thread was appending to a different buffer)", j, b.buffer[j], m[j]);
        }
    }
    sim::probe("second_thread_grew_its_own_buffer");
    aws_byte_buf_clean_up_secure(&b);
}

RunInfo run(const sim::Plan &plan) {
    simalloc::Config ac;
    ac.seed = plan.seed;
    ac.has_realloc = plan.get("alloc_realloc", 1) != 0;
    ac.has_calloc = plan.get("alloc_calloc", 1) != 0;
    ac.p_move = (double)plan.get("alloc_move_permille", 500) / 1000.0;
    ac.p_reuse = (double)plan.get("alloc_reuse_permille", 700) / 1000.0;
    int peer_n = plan.get("part", 0) == 1 ? (int)plan.get("peer_appends", 0) : 0;
    if (peer_n > 0) ac.yield_points = true; // the allocator calls are where the two threads can interleave
    Ctx c;
    c.plan = &plan;
    c.alloc = simalloc::create(ac);
    simalloc::set_release_hook(on_release, &c);
    simfile::reset();
    sim::begin(plan);
    if (plan.get("part", 0) == 0) {
        for (const sim::Op &op : plan.ops) if (op.kind == OP_FILE) run_file(c, op);
    } else if (peer_n > 0) {
        struct aws_thread th;
        PeerArg pa{&c, peer_n, plan.seed};
        aws_thread_init(&th, c.alloc);
        if (aws_thread_launch(&th, peer_fn, &pa, nullptr)) sim::violation("c01:harness", "thread launch failed");
        run_growth(c);
        aws_thread_join(&th);
        aws_thread_clean_up(&th);
        simalloc::expect_balanced("end of run");
    } else {
        run_growth(c);
        simalloc::expect_balanced("end of run");
    }
    RunInfo ri;
    ri.st = sim::end();
    ri.ops_done = c.ops_done;
    uint64_t h = c.hist;
    for (auto &kv : ri.st.faults) h = sim::mix64(h, kv.second * 31 + kv.first.size());
    for (auto &kv : plan.cfg) if (kv.first != "sched_seed" && kv.first != "boot0") h = sim::mix64(h, (uint64_t)kv.second * 7 + kv.first.size());
    h = sim::mix64(h, simalloc::moved_count() * 3 + simalloc::reuse_count());
    ri.case_fp = h;
    ri.nontrivial = plan.get("part", 0) == 0 ? (!ri.st.faults.empty() || plan.get("reported_size_mode", 0) != 0 || plan.get("chunk", 0) != 0)
                                             : (simalloc::moved_count() > 0 || ri.st.probes.count("secure_growth_released_old_block") || ri.st.probes.count("size_overflow_refused") ||
                                                ri.st.probes.count("growth_released_old_block"));
    return ri;
}

void gen(uint64_t seed, int tier, sim::Plan &p) {
    sim::Rng r(sim::mix64(seed, 0xC01));
    p = sim::Plan();
    p.prop = "C01";
    p.seed = seed;
    hgen::sched_config(r, p, false, false, false, false, -1);
    p.cfg["alloc_realloc"] = r.chance(0.7);
    p.cfg["alloc_calloc"] = r.chance(0.8);
    p.cfg["alloc_move_permille"] = r.pick(std::vector<int64_t>{0, 500, 1000});
    p.cfg["alloc_reuse_permille"] = r.pick(std::vector<int64_t>{0, 700, 1000});
    int part = r.chance(0.4) ? 0 : 1;
    p.cfg["part"] = part;
    if (part == 0) {
        int64_t L = r.pick(std::vector<int64_t>{0, 1, 31, 32, 33, 4095, 4096, 4097, 8192, 10000, -1});
        if (L < 0) L = r.range(0, tier ? 65536 : 20000);
        const bool big_file = r.chance(tier ? 0.0004 : 0.0002);
        if (big_file) L = ((int64_t)64 << 20) + r.pick(std::vector<int64_t>{1, 4097, 1 << 20, 6 << 20}); // pulled in 4 KiB at a time from a tiny hint
        p.cfg["content_len"] = L;
        p.cfg["reported_size_mode"] = r.pick(std::vector<int64_t>{0, 0, 0, 1, 2, 3, 4});
        p.cfg["size_delta"] = r.pick(std::vector<int64_t>{1, 2, 31, 32, 4096});
        p.cfg["chunk"] = r.pick(std::vector<int64_t>{0, 0, 1, 7, 32, 4096});
        p.cfg["unbuffered"] = r.chance(0.4);
        int fault = r.chance(0.5) ? 0 : (int)r.range(1, 5);
        p.cfg["fault"] = fault;
        if (fault == 1) p.cfg["fault_errno"] = r.pick(std::vector<int64_t>{ENOENT, EACCES, EMFILE, EIO});
        if (fault == 2) p.cfg["fault_errno"] = r.pick(std::vector<int64_t>{EIO, EACCES, ENOMEM, EBADF});
        if (fault == 5) p.cfg["fault_errno"] = r.pick(std::vector<int64_t>{EIO, ESTALE, EBADF});
        if (fault == 4) {
            p.cfg["fault_errno"] = r.pick(std::vector<int64_t>{EIO, EINTR, ENOSPC});
            p.cfg["fault_offset"] = r.chance(0.3) ? 0 : r.range(0, L + 2);
            p.cfg["fault_transient"] = r.chance(0.3);
        }
        sim::Op op;
        op.kind = OP_FILE;
        op.a = r.chance(0.5);
        op.b = r.pick(std::vector<int64_t>{0, 1, L > 0 ? L - 1 : 0, L, L + 1, 2 * L, 31, 32, 4096});
        if (big_file) {
            op.a = 1; op.b = r.pick(std::vector<int64_t>{0, 32, 4096});
            p.cfg["fault"] = 0; fault = 0;
            p.cfg["alloc_realloc"] = 1; p.cfg["alloc_move_permille"] = 0; p.cfg["chunk"] = 0; p.cfg["unbuffered"] = 0;
            p.cfg["hang_scale"] = 3; p.cfg["soft_budget"] = 0; p.cfg["hard_budget"] = 0;
        }
        if (fault == 4) {
            // "nothing to read right now" style errors as well, and errors that land exactly between two read requests of the call (the request
            // sizes follow the buffer's capacity: hint, hint + 1, twice that, ...), so that a whole request comes back empty-handed
            p.cfg["fault_errno"] = r.pick(std::vector<int64_t>{EIO, EINTR, ENOSPC, EAGAIN, EWOULDBLOCK, ESTALE});
            if (r.chance(0.4)) p.cfg["fault_offset"] = r.pick(std::vector<int64_t>{op.b, op.b + 1, 2 * (op.b + 1), 4096, 8192, L > 1 ? L / 2 : 0});
        }
        // a stdio whose fread reports end-of-file together with the last bytes (fault-free plans only: the look-ahead must not trip a scripted error)
        if (fault == 0 && !big_file && r.chance(0.3)) p.cfg["eager_eof"] = 1;
        p.ops.push_back(op);
    } else {
        int n = (int)r.range(3, 40);
        static const std::vector<int64_t> sz = {0, 1, 2, 7, 8, 15, 16, 17, 31, 32, 33, 63, 64, 65, 100, 255, 256, 257, 1000, 4096, 4097, 65536, 100000};
        for (int i = 0; i < n; i++) {
            sim::Op op;
            uint64_t k = r.below(100);
            if (k < 6) { op.kind = OP_INIT; op.a = r.pick(sz); }
            else if (k < 10) { op.kind = OP_INIT_COPY_CURSOR; op.a = r.pick(sz); op.b = (int64_t)(r.next() >> 2); }
            else if (k < 13) { op.kind = OP_INIT_COPY; }
            else if (k < 15) { op.kind = OP_INIT_CACHE; op.a = r.chance(0.5) ? r.range(0, 40) : r.pick(std::vector<int64_t>{0, 1, 2, 3, 8, 15, 16, 17, 31, 32, 33, 40}); op.b = (int64_t)(r.next() >> 2); op.d = r.chance(0.1); }
            else if (k < 40) { op.kind = OP_APPEND_DYN; op.a = r.pick(sz); op.b = (int64_t)(r.next() >> 2); op.d = r.chance(0.4); }
            else if (k < 47) { op.kind = OP_SELF_APPEND; op.a = r.range(0, 1000); op.b = r.range(0, 1000); op.d = r.chance(0.4); }
            else if (k < 55) { op.kind = OP_APPEND_BYTE_DYN; op.a = r.range(0, 255); op.d = r.chance(0.4); }
            else if (k < 58) { op.kind = OP_APPEND_STATIC; op.a = r.pick(sz); op.b = (int64_t)(r.next() >> 2); }
            else if (k < 60) { op.kind = OP_APPEND_ADJ; op.b = (int64_t)(r.next() >> 2); op.d = r.chance(0.4); }
            else if (k < 67) { op.kind = OP_RESERVE; op.a = r.pick(sz); }
            else if (k < 74) { op.kind = OP_RESERVE_REL; op.a = r.pick(sz); op.b = r.chance(0.2); }
            else if (k < 79) { op.kind = OP_RESERVE_SMART; op.a = r.pick(sz); }
            else if (k < 84) { op.kind = OP_RESERVE_SMART_REL; op.a = r.pick(sz); op.b = r.chance(0.2); }
            else if (k < 88) { op.kind = OP_CAT; op.a = r.pick(sz) % 40; op.b = r.pick(sz) % 40; op.c = r.pick(sz) % 40; op.d = (int64_t)(r.next() >> 4); }
            else if (k < 92) { op.kind = OP_RESET; op.a = r.chance(0.5); }
            else if (k < 95) { op.kind = OP_SECURE_ZERO; }
            else { op.kind = OP_CLEAN_UP; op.d = r.chance(0.5); }
            p.ops.push_back(op);
        }
        if (r.chance(0.012)) {
            // one very large append (growth arithmetic far from the small-size regime)
            sim::Op big;
            big.kind = OP_APPEND_DYN;
            big.a = r.pick(std::vector<int64_t>{(1 << 20) + 1, 16 << 20, (16 << 20) + 1, (17 << 20) + 123, 20 << 20});
            big.b = (int64_t)(r.next() >> 2);
            big.d = r.chance(0.4);
            p.ops.insert(p.ops.begin() + (long)r.below(p.ops.size() + 1), big);
        }
        if (r.chance(0.15)) {
            // a second thread grows a buffer of its own meanwhile
            p.cfg["peer_appends"] = r.range(5, 120);
            hgen::sched_config(r, p, true, false, false, false, -1);
        }
    }
}

std::string op_text(const sim::Op &op) {
    char b[200];
    switch (op.kind) {
        case OP_FILE: snprintf(b, sizeof b, op.a ? "aws_byte_buf_init_from_file_with_size_hint(hint=%lld)" : "aws_byte_buf_init_from_file()  [hint arg %lld unused]", (long long)op.b); break;
        case OP_INIT: snprintf(b, sizeof b, "init(capacity %lld)", (long long)op.a); break;
        case OP_INIT_COPY: snprintf(b, sizeof b, "init_copy(); clean_up(original)"); break;
        case OP_INIT_COPY_CURSOR: snprintf(b, sizeof b, "init_copy_from_cursor(%lld bytes)", (long long)op.a); break;
        case OP_APPEND_ADJ: snprintf(b, sizeof b, "append_dynamic%s(16 bytes of an object that starts right behind the destination's block)", op.d ? "_secure" : ""); break;
        case OP_INIT_CACHE: snprintf(b, sizeof b, "init_cache_and_update_cursors(%lld cursors)%s", (long long)(op.a % 41), op.d ? " [one length makes the total overflow]" : ""); break;
        case OP_APPEND_DYN: snprintf(b, sizeof b, "append_dynamic%s(%lld bytes)", op.d ? "_secure" : "", (long long)op.a); break;
        case OP_SELF_APPEND: snprintf(b, sizeof b, "append_dynamic%s(cursor into the destination itself)", op.d ? "_secure" : ""); break;
        case OP_APPEND_BYTE_DYN: snprintf(b, sizeof b, "append_byte_dynamic%s(0x%02llx)", op.d ? "_secure" : "", (long long)op.a); break;
        case OP_APPEND_STATIC: snprintf(b, sizeof b, "append(%lld bytes) [no growth]", (long long)op.a); break;
        case OP_RESERVE: snprintf(b, sizeof b, "reserve(%lld)", (long long)op.a); break;
        case OP_RESERVE_REL: snprintf(b, sizeof b, op.b ? "reserve_relative(SIZE_MAX-ish: len+additional overflows)" : "reserve_relative(%lld)", (long long)op.a); break;
        case OP_RESERVE_SMART: snprintf(b, sizeof b, "reserve_smart(%lld)", (long long)op.a); break;
        case OP_RESERVE_SMART_REL: snprintf(b, sizeof b, op.b ? "reserve_smart_relative(SIZE_MAX-ish: overflows)" : "reserve_smart_relative(%lld)", (long long)op.a); break;
        case OP_CAT: snprintf(b, sizeof b, "cat(3 buffers of %lld, %lld, %lld bytes)", (long long)op.a, (long long)op.b, (long long)op.c); break;
        case OP_RESET: snprintf(b, sizeof b, "reset(zero_contents=%lld)", (long long)op.a); break;
        case OP_SECURE_ZERO: snprintf(b, sizeof b, "secure_zero()"); break;
        case OP_CLEAN_UP: snprintf(b, sizeof b, "clean_up%s()", op.d ? "_secure" : ""); break;
        default: snprintf(b, sizeof b, "?");
    }
    return b;
}

} // namespace

extern const Harness H_C01 = {
    "C01", "byte buffers against their environment (file -> buffer under I/O faults; growth and secure release against an allocator)", gen, run, op_text,
    "Two kinds of plans. (0) file -> buffer: aws_byte_buf_init_from_file[_with_size_hint] on a simulated file: content length from "
    "{0,1,31,32,33,4095,4096,4097,8192,10000,random}, size reported by fstat equal / 0 / 4096 / larger / smaller than the content, size hints "
    "around the length, read chunking and stdio buffering, a stdio whose fread reports end-of-file together with the last bytes (30% of the fault-free plans), at most one of fopen error, fstat error, fileno failure, read error at an offset; "
    "simulated allocator (moves or not on realloc, with or without mem_realloc, junk fill). (1) growth (15% with a second thread growing a buffer of its own, interleaved at the allocator calls): 3-40 operations of init, init_copy, init_cache_and_update_cursors (0-40 cursors), "
    "init_copy_from_cursor, append_dynamic[_secure] incl. self-append, append_byte_dynamic[_secure], append, reserve, reserve_relative, "
    "reserve_smart[_relative] incl. len+additional overflow, cat, reset, secure_zero, clean_up[_secure], checked against a byte-vector "
    "model after every call; released blocks are inspected by the allocator (zero-filled for the secure variants, guard bands intact). "
    "Distinct = fingerprint of configuration, operations, fired faults and allocator behaviour; non-trivial = (0) a fault fired or the "
    "reported size / chunking differs from the plain case, (1) at least one growth that moved the block, or a refused overflow.",
    "source/byte_buf.c, file.c, posix/file.c, allocator.c, zero.inl, error.c (real)",
    "fopen/fileno/fstat and the FILE* behind them (fopencookie, scripted), aws_allocator (simulated)"};
