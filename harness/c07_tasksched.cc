// C07 — task scheduler runs every task exactly once, never early, in time order (DESIGN.md §5 C07)
// Single simulated thread; the simulated clock is the only clock; cancellation, clean-up and an injected
// failure of the timed queue (aws_priority_queue_push_ref) may arrive at any point, including from task functions.
#include "harness.h"

#include <aws/common/task_scheduler.h>
#include <aws/common/error.h>

#include <vector>
#include <deque>
#include <algorithm>
#include <string.h>
#include <math.h>

namespace {

enum { OP_SCHED_NOW = 1, OP_SCHED_FUT, OP_CANCEL, OP_RUN_ALL, OP_HAS_TASKS, OP_CLEANUP_REINIT, OP_ADVANCE, OP_BEHAV, OP_BULK_SCHED, OP_BULK_CANCEL };
// OP_BULK_SCHED: a=first task, b=count, c=pattern (0 one time now+d, 1 increasing, 2 decreasing, 3 scattered over [now, now+d], 4 run-now), d=delta
// OP_BULK_CANCEL: a=first task, b=count (model-pending ones only)
// time modes for OP_SCHED_FUT (b) : 0 abs 0, 1 now-delta, 2 now, 3 now+delta, 4 UINT64_MAX, 5 same as the last scheduled time
// time modes for OP_RUN_ALL (a): 0 clock now, 1 repeat last run time, 2 step back by delta, 3 zero, 4 UINT64_MAX, 5 advance by delta then now
// behaviour actions (OP_BEHAV: a=task, b=status 0 run/1 canceled, c=action, d=arg)
enum { B_SCHED_NOW = 1, B_SCHED_FUT, B_RESCHED_SELF_NOW, B_RESCHED_SELF_FUT, B_CANCEL, B_SCHED_THEN_CANCEL, B_CLEANUP };
// B_CLEANUP: a 'shutdown task': its function cleans the scheduler up from inside run_all (the rest of the running batch still runs)

enum TState { IDLE = 0, PENDING };

struct Behav { int action; int64_t arg; };

struct TaskM {
    struct aws_task task;
    int id;
    int state = IDLE;
    bool asap = false;
    uint64_t time = 0;
    uint64_t sched_seq = 0;
    bool in_batch = false;
    uint64_t instance = 0;      // scheduled instance counter
    uint64_t invoked_instance = 0;
    int resched_left = 0;
    int running = 0;            // its function is on the stack
    bool idle_cancel = false;   // the pending 'instance' is a cancel of a task that is not in the scheduler
    std::vector<Behav> on_run, on_cancel;
};

struct Ctx {
    const sim::Plan *plan;
    struct aws_allocator *alloc;
    struct aws_task_scheduler sched;
    std::deque<TaskM> tasks;
    uint64_t now = 0, last_run_time = 0, last_sched_time = 0;
    uint64_t seq = 0;
    // run_all state
    bool in_run_all = false, in_cleanup = false;
    uint64_t run_now = 0;
    std::deque<int> batch_asap;          // expected FIFO order of asap tasks still to run in this batch
    bool batch_timed_started = false;
    uint64_t batch_last_time = 0;
    int batch_remaining = 0;
    int cancelling = -1;                 // task id whose cancel call is in progress
    bool cancel_seen = false;
    uint64_t hist = 7;                   // history fingerprint
    uint64_t invocations = 0, behav_fired = 0, ops_done = 0;
    struct aws_linked_list staging; // caller-owned list that borrows task->node while a task is not scheduled
    bool cleaned_in_run = false; // a task function cleaned the scheduler up during the current run_all: nobody may use it until it is initialised again
    int64_t chain_left = 0; // clean-up chain: a task cancelled by clean_up schedules itself again, this many more times in total
    int cleanup_sched_budget = 0; // bounds task functions that keep scheduling during clean-up (a caller-made infinite loop otherwise)
};
static Ctx *g = nullptr;

void task_fn(struct aws_task *task, void *arg, enum aws_task_status status);

uint64_t abs_time(Ctx &c, int mode, int64_t delta) {
    switch (mode) {
        case 0: return 0;
        case 1: return c.now > (uint64_t)delta ? c.now - (uint64_t)delta : 0;
        case 2: return c.now;
        case 3: return c.now + (uint64_t)delta;
        case 4: return UINT64_MAX;
        case 5: return c.last_sched_time;
    }
    return c.now;
}

void m_schedule(Ctx &c, TaskM &t, bool asap, uint64_t when) {
    t.state = PENDING;
    t.asap = asap;
    t.time = asap ? 0 : when;
    t.sched_seq = ++c.seq;
    t.in_batch = false;
    t.instance++;
    if (!asap) c.last_sched_time = when;
}

// task->node is a public field and a task that is not scheduled is the caller's: aws_thread_scheduler parks tasks in a list of its
// own through it. Here the caller empties that list wholesale (re-initialises it), so the node still carries links when the task
// is handed to the scheduler - which resets the node on every schedule call.
void stale_links(Ctx &c, TaskM &t) {
    aws_linked_list_init(&c.staging);
    aws_linked_list_push_back(&c.staging, &t.task.node);
    aws_linked_list_init(&c.staging);
    sim::probe("task_scheduled_with_stale_list_links");
}
void check_staging(Ctx &c, const char *where) {
    if (c.staging.head.next != &c.staging.tail || c.staging.tail.prev != &c.staging.head || c.staging.head.prev || c.staging.tail.next)
        sim::violation("c07:foreign-write", "%s: the caller's own (empty) list was modified by the scheduler", where);
}

void do_sched_now(Ctx &c, TaskM &t, bool stale = false) {
    if (t.state != IDLE) return; // scheduling an already scheduled task is a caller error: not generated
    if (stale && !t.running) stale_links(c, t);
    m_schedule(c, t, true, 0);
    aws_task_scheduler_schedule_now(&c.sched, &t.task);
}
void do_sched_fut(Ctx &c, TaskM &t, uint64_t when, bool fail_push, bool stale = false) {
    if (t.state != IDLE) return;
    if (stale && !t.running) stale_links(c, t);
    m_schedule(c, t, false, when);
    if (fail_push) sim::set_pushref_next(true);
    if (c.in_cleanup) sim::probe("scheduled_during_cleanup");
    if (c.in_run_all) sim::probe("scheduled_during_run_all");
    aws_task_scheduler_schedule_future(&c.sched, &t.task, when);
    sim::set_pushref_next(false);
}
void do_cancel(Ctx &c, TaskM &t, bool idle_ok = false, bool reinit = false) {
    if (t.state != PENDING) {
        // Cancelling a task that is not in the scheduler is what aws_thread_scheduler does for a task cancelled before it was handed
        // over: nothing to remove, the function is invoked with CANCELED status, nobody else is affected. Only generated for a task
        // whose function is not on the stack right now.
        if (!idle_ok || t.running) return;
        if (reinit) { aws_task_init(&t.task, task_fn, &t, "dsim"); sim::probe("cancel_of_freshly_initialised_task"); }
        sim::probe("cancel_of_task_not_in_scheduler");
        t.state = PENDING;
        t.asap = false;
        t.time = UINT64_MAX;
        t.idle_cancel = true;
        t.in_batch = false;
        t.instance++;
    }
    int prev = c.cancelling;
    bool prev_seen = c.cancel_seen;
    c.cancelling = t.id;
    c.cancel_seen = false;
    uint64_t inst = t.instance;
    aws_task_scheduler_cancel_task(&c.sched, &t.task);
    if (!c.cancel_seen || t.invoked_instance < inst)
        sim::violation("c07:cancel-not-invoked", "cancel_task(task %d) returned without invoking the task with CANCELED status", t.id);
    c.cancelling = prev;
    c.cancel_seen = prev_seen;
    if (prev == t.id) c.cancel_seen = true;
}

void run_behaviours(Ctx &c, TaskM &self, const std::vector<Behav> &bl) {
    for (const Behav &b : bl) {
        if (c.cleaned_in_run) return;
        if (b.action == B_CLEANUP) {
            if (!c.in_run_all || c.in_cleanup) continue;
            sim::probe("scheduler_cleaned_up_from_inside_a_task_function");
            c.in_cleanup = true;
            c.cleanup_sched_budget = 0;
            aws_task_scheduler_clean_up(&c.sched);
            c.in_cleanup = false;
            for (auto &t : c.tasks)
                if (t.state == PENDING && !t.in_batch)
                    sim::violation("c07:cleanup-left", "task %d still pending (never invoked) after a clean_up made from inside a task function", t.id);
            c.cleaned_in_run = true;
            return;
        }
        if (c.behav_fired >= 300) return;
        if (c.in_cleanup && b.action != B_CANCEL) {
            if (c.cleanup_sched_budget <= 0) continue;
            c.cleanup_sched_budget--;
        }
        c.behav_fired++;
        switch (b.action) {
            case B_SCHED_NOW: { TaskM &t = c.tasks[(size_t)b.arg % c.tasks.size()]; do_sched_now(c, t); break; }
            case B_SCHED_FUT: {
                TaskM &t = c.tasks[(size_t)(b.arg / 1000) % c.tasks.size()];
                int64_t code = b.arg % 1000; // mode*100 + delta_class*2 + fail
                static const int64_t dl[] = {0, 1, 7, 100, 100000};
                do_sched_fut(c, t, abs_time(c, (int)(code / 100) % 6, dl[(code / 2) % 5]), (code & 1) != 0);
                break;
            }
            case B_RESCHED_SELF_NOW:
                if (self.resched_left > 0) { self.resched_left--; do_sched_now(c, self); }
                break;
            case B_RESCHED_SELF_FUT:
                if (self.resched_left > 0) { self.resched_left--; do_sched_fut(c, self, c.now + (uint64_t)(b.arg % 1000), (b.arg & 1) != 0); }
                break;
            case B_CANCEL: { TaskM &t = c.tasks[(size_t)b.arg % c.tasks.size()]; if (&t != &self) do_cancel(c, t); break; }
            case B_SCHED_THEN_CANCEL: {
                TaskM &t = c.tasks[(size_t)b.arg % c.tasks.size()];
                if (&t != &self && t.state == IDLE) { do_sched_fut(c, t, c.now + 1000000, false); do_cancel(c, t); }
                break;
            }
        }
    }
}

void task_fn(struct aws_task *task, void *arg, enum aws_task_status status) {
    Ctx &c = *g;
    TaskM &t = *(TaskM *)arg;
    c.invocations++;
    if (task != &t.task) sim::violation("c07:wrong-task", "task function called with a foreign task pointer");
    if (t.state != PENDING || t.invoked_instance >= t.instance)
        sim::violation("c07:double-invoke", "task %d invoked (status %s) although it has no pending scheduled instance (invoked twice, or invoked after cancel)",
                       t.id, status == AWS_TASK_STATUS_RUN_READY ? "RUN" : "CANCELED");
    c.hist = sim::mix64(c.hist, (uint64_t)t.id * 4 + (uint64_t)status);
    if (status == AWS_TASK_STATUS_RUN_READY) {
        if (!c.in_run_all || c.in_cleanup)
            sim::violation("c07:run-outside-runall", "task %d invoked with RUN status outside a run_all call", t.id);
        if (!t.in_batch)
            sim::violation(t.asap || t.time <= c.run_now ? "c07:ran-task-scheduled-during-batch" : "c07:ran-early",
                           "task %d (time %llu, %s) ran in run_all(now=%llu) but was not pending and due when that call started", t.id,
                           (unsigned long long)t.time, t.asap ? "run-now" : "timed", (unsigned long long)c.run_now);
        if (!t.asap && t.time > c.run_now)
            sim::violation("c07:ran-early", "task %d with time %llu ran in run_all(now=%llu)", t.id, (unsigned long long)t.time, (unsigned long long)c.run_now);
        if (t.asap) {
            if (c.batch_timed_started) sim::violation("c07:order", "run-now task %d ran after a timed task of the same run_all", t.id);
            if (c.batch_asap.empty() || c.batch_asap.front() != t.id)
                sim::violation("c07:order", "run-now task %d ran out of FIFO order (expected task %d next)", t.id, c.batch_asap.empty() ? -1 : c.batch_asap.front());
            c.batch_asap.pop_front();
        } else {
            if (!c.batch_asap.empty()) sim::violation("c07:order", "timed task %d ran before run-now task %d of the same run_all", t.id, c.batch_asap.front());
            if (c.batch_timed_started && t.time < c.batch_last_time)
                sim::violation("c07:order", "timed task %d (time %llu) ran after a task with time %llu in the same run_all", t.id,
                               (unsigned long long)t.time, (unsigned long long)c.batch_last_time);
            c.batch_timed_started = true;
            c.batch_last_time = t.time;
        }
        c.batch_remaining--;
    } else {
        if (c.cancelling == t.id) {
            c.cancel_seen = true;
        } else if (!c.in_cleanup) {
            sim::violation("c07:spurious-cancel", "task %d invoked with CANCELED status although neither cancel nor clean-up was called for it", t.id);
        }
        if (t.in_batch) {
            sim::probe("cancel_of_task_in_running_batch");
            c.batch_remaining--;
            for (size_t i = 0; i < c.batch_asap.size(); i++) if (c.batch_asap[i] == t.id) { c.batch_asap.erase(c.batch_asap.begin() + (long)i); break; }
        }
    }
    t.invoked_instance = t.instance;
    t.state = IDLE;
    t.in_batch = false;
    t.idle_cancel = false;
    t.running++;
    if (c.in_cleanup && status == AWS_TASK_STATUS_CANCELED && c.chain_left > 0) {
        // every generation needs one more cancellation pass of clean_up: however long the chain, the last link must be invoked too
        c.chain_left--;
        if (c.chain_left & 1) do_sched_now(c, t); else do_sched_fut(c, t, c.now + (uint64_t)(c.chain_left % 5), false);
        if (c.chain_left == 0) sim::probe("cleanup_chain_completed");
    } else
    run_behaviours(c, t, status == AWS_TASK_STATUS_RUN_READY ? t.on_run : t.on_cancel);
    t.running--;
}

void check_has_tasks(Ctx &c, const char *where) {
    uint64_t next = 12345;
    bool has = aws_task_scheduler_has_tasks(&c.sched, &next);
    if (aws_task_scheduler_has_tasks(&c.sched, NULL) != has) // the documented form without the optional out-parameter
        sim::violation("c07:has-tasks", "%s: has_tasks(scheduler, NULL) returns %d, has_tasks(scheduler, &next) returns %d", where, (int)!has, (int)has);
    bool m_has = false;
    uint64_t m_next = UINT64_MAX;
    bool any_asap = false;
    for (auto &t : c.tasks) if (t.state == PENDING && !t.idle_cancel) { m_has = true; if (t.asap) any_asap = true; else if (t.time < m_next) m_next = t.time; }
    if (any_asap) m_next = 0;
    if (has != m_has)
        sim::violation("c07:has-tasks", "%s: has_tasks returned %d, model says %d", where, (int)has, (int)m_has);
    if (next != m_next)
        sim::violation("c07:next-time", "%s: has_tasks reports next time %llu, model says %llu", where, (unsigned long long)next, (unsigned long long)m_next);
}

void do_run_all(Ctx &c, uint64_t now) {
    c.in_run_all = true;
    c.run_now = now;
    c.batch_asap.clear();
    c.batch_timed_started = false;
    c.batch_last_time = 0;
    c.batch_remaining = 0;
    std::vector<TaskM *> asap;
    for (auto &t : c.tasks) {
        t.in_batch = false;
        if (t.state == PENDING && (t.asap || t.time <= now)) {
            t.in_batch = true;
            c.batch_remaining++;
            if (t.asap) asap.push_back(&t);
        }
    }
    std::sort(asap.begin(), asap.end(), [](TaskM *a, TaskM *b) { return a->sched_seq < b->sched_seq; });
    for (TaskM *t : asap) c.batch_asap.push_back(t->id);
    aws_task_scheduler_run_all(&c.sched, now);
    c.in_run_all = false;
    if (c.cleaned_in_run) { // the shutdown task is done and so is the rest of its batch: a new scheduler lifetime begins
        c.cleaned_in_run = false;
        if (aws_task_scheduler_init(&c.sched, c.alloc)) sim::violation("c07:harness", "re-init failed");
    }
    for (auto &t : c.tasks)
        if (t.in_batch)
            sim::violation("c07:not-run", "task %d (time %llu, %s) was pending and due at run_all(now=%llu) but was not invoked by it", t.id,
                           (unsigned long long)t.time, t.asap ? "run-now" : "timed", (unsigned long long)now);
    c.last_run_time = now;
}

void do_cleanup_reinit(Ctx &c, bool reinit) {
    for (auto &t : c.tasks) if (t.state == PENDING) { sim::probe("cleanup_with_pending_tasks"); break; }
    c.in_cleanup = true;
    if (!reinit) { // the final clean-up of the run carries the chain, if the plan has one
        c.chain_left = c.plan->get("cleanup_chain", 0);
        if (c.chain_left > (1 << 20)) sim::probe("cleanup_chain_longer_than_2_to_20");
        else if (c.chain_left > 0) sim::probe("cleanup_chain");
    }
    c.cleanup_sched_budget = 6;
    aws_task_scheduler_clean_up(&c.sched);
    c.in_cleanup = false;
    for (auto &t : c.tasks)
        if (t.state == PENDING)
            sim::violation("c07:cleanup-left", "task %d still pending (never invoked) after clean_up", t.id);
    if (reinit) {
        if (aws_task_scheduler_init(&c.sched, c.alloc)) sim::violation("c07:harness", "re-init failed");
    }
}

RunInfo run(const sim::Plan &plan) {
    simalloc::Config ac;
    ac.seed = plan.seed;
    ac.has_realloc = plan.get("alloc_realloc", 1) != 0;
    ac.has_calloc = plan.get("alloc_calloc", 1) != 0;
    Ctx c;
    g = &c;
    c.plan = &plan;
    c.alloc = simalloc::create(ac);
    int nt = (int)plan.get("ntasks", 4);
    if (nt < 1) nt = 1;
    c.tasks.resize((size_t)nt);
    for (int i = 0; i < nt; i++) {
        c.tasks[(size_t)i].id = i;
        c.tasks[(size_t)i].resched_left = (int)plan.get("max_resched", 2);
        aws_task_init(&c.tasks[(size_t)i].task, task_fn, &c.tasks[(size_t)i], "dsim");
    }
    for (const sim::Op &op : plan.ops)
        if (op.kind == OP_BEHAV) {
            TaskM &t = c.tasks[(size_t)op.a % c.tasks.size()];
            (op.b ? t.on_cancel : t.on_run).push_back(Behav{(int)op.c, op.d});
        }
    sim::begin(plan);
    sim::set_pushref_mode(2, 0);
    c.now = sim::now_boot();
    if (aws_task_scheduler_init(&c.sched, c.alloc)) sim::violation("c07:harness", "init failed");
    aws_linked_list_init(&c.staging);
    for (const sim::Op &op : plan.ops) {
        if (op.kind == OP_BEHAV) continue;
        if (plan.get("poison_errors", 0)) hx::poison_errors(plan.seed, c.ops_done);
        c.ops_done++;
        sim::note(sim::PK_HARNESS, nullptr, op.kind);
        switch (op.kind) {
            case OP_SCHED_NOW: do_sched_now(c, c.tasks[(size_t)op.a % c.tasks.size()], op.b != 0); break;
            case OP_SCHED_FUT: do_sched_fut(c, c.tasks[(size_t)op.a % c.tasks.size()], abs_time(c, (int)op.b, op.c), (op.d & 1) != 0, (op.d & 2) != 0); break;
            case OP_CANCEL: do_cancel(c, c.tasks[(size_t)op.a % c.tasks.size()], op.b != 0, op.c != 0); break;
            case OP_RUN_ALL: {
                uint64_t now;
                switch (op.a) {
                    case 1: now = c.last_run_time; sim::fault_fired("clock_repeat"); break;
                    case 2: now = c.now > (uint64_t)op.b ? c.now - (uint64_t)op.b : 0; sim::fault_fired("clock_step_back"); break;
                    case 3: now = 0; sim::fault_fired("clock_zero"); break;
                    case 4: now = UINT64_MAX; sim::fault_fired("clock_max"); break;
                    case 5: c.now += (uint64_t)op.b; now = c.now; break;
                    default: now = c.now;
                }
                do_run_all(c, now);
                break;
            }
            case OP_HAS_TASKS: check_has_tasks(c, "has_tasks op"); break;
            case OP_CLEANUP_REINIT: do_cleanup_reinit(c, true); break;
            case OP_ADVANCE: c.now += (uint64_t)op.a; break;
            case OP_BULK_SCHED: {
                size_t n = c.tasks.size(), cnt = (size_t)op.b > n ? n : (size_t)op.b;
                uint64_t d = (uint64_t)op.d, x = sim::mix64((uint64_t)op.a, (uint64_t)op.b);
                size_t pend_before = 0;
                for (size_t i = 0; i < cnt; i++) {
                    TaskM &t = c.tasks[((size_t)op.a + i) % n];
                    if (t.state != IDLE) { pend_before++; continue; }
                    switch (op.c) {
                        case 0: do_sched_fut(c, t, c.now + d, false); break;
                        case 1: do_sched_fut(c, t, c.now + i, false); break;
                        case 2: do_sched_fut(c, t, c.now + (cnt - i), false); break;
                        case 3: x = sim::mix64(x, i); do_sched_fut(c, t, c.now + (d ? x % (d + 1) : 0), false); break;
                        default: do_sched_now(c, t);
                    }
                }
                if (cnt - pend_before > 100000) sim::probe("bulk_schedule_over_100000_tasks");
                else if (cnt - pend_before > 10000) sim::probe("bulk_schedule_over_10000_tasks");
                break;
            }
            case OP_BULK_CANCEL: {
                size_t n = c.tasks.size(), cnt = (size_t)op.b > n ? n : (size_t)op.b;
                for (size_t i = 0; i < cnt; i++) do_cancel(c, c.tasks[((size_t)op.a + i) % n]);
                break;
            }
        }
        if (!aws_task_scheduler_is_valid(&c.sched)) sim::violation("c07:invalid", "scheduler validity predicate false after op %d", op.kind);
        check_has_tasks(c, "after op");
        check_staging(c, "after op");
        simalloc::check_all("after op");
    }
    if (plan.get("cleanup_chain", 0) > 0) do_sched_now(c, c.tasks[0]); // something for the chain to start from (no-op if task 0 is pending)
    do_cleanup_reinit(c, false);
    for (auto &t : c.tasks)
        if (t.invoked_instance != t.instance)
            sim::violation("c07:lost", "task %d: %llu scheduled instances but %llu invocations", t.id, (unsigned long long)t.instance,
                           (unsigned long long)t.invoked_instance);
    simalloc::expect_balanced("after clean_up");
    RunInfo ri;
    ri.st = sim::end();
    ri.ops_done = c.ops_done;
    uint64_t f = c.hist;
    for (auto &kv : ri.st.faults) f = sim::mix64(f, kv.second * 31 + kv.first.size());
    ri.case_fp = f;
    ri.nontrivial = c.invocations >= 3 && (c.behav_fired > 0 || !ri.st.faults.empty());
    g = nullptr;
    return ri;
}

void gen(uint64_t seed, int tier, sim::Plan &p) {
    sim::Rng r(sim::mix64(seed, 0xC07));
    p = sim::Plan();
    p.prop = "C07";
    p.seed = seed;
    hgen::sched_config(r, p, false, false, false, false, -1);
    int nt = (int)r.range(1, r.chance(0.3) ? 24 : 8);
    bool many = r.chance(tier ? 0.04 : 0.02); // scale run: the timed queue has to grow several times (7 -> 14 -> ... )
    if (many) nt = (int)r.range(100, 300);
    // mega run: tens to hundreds of thousands of tasks pending at once (the queue's backing store passes every growth step up to MiBs),
    // scheduled and cancelled with compact bulk operations so that the plan stays a handful of operations
    bool mega = !many && r.chance(tier ? 0.0012 : 0.0006);
    if (mega) { double e = (double)r.range(0, 1000) / 1000.0; nt = (int)(2000.0 * pow(150.0, e)); }
    if (r.chance(tier ? 0.0008 : 0.0004)) { double e = (double)r.range(0, 1000) / 1000.0; p.cfg["cleanup_chain"] = (int64_t)(1000.0 * pow(2000.0, e)); }
    p.cfg["ntasks"] = nt;
    p.cfg["max_resched"] = r.range(0, 3);
    p.cfg["alloc_realloc"] = r.chance(0.8);
    p.cfg["alloc_calloc"] = r.chance(0.8);
    double pf = r.pick(std::vector<double>{0, 0, 0.1, 0.5, 1.0});
    // behaviours
    int nb = (int)r.range(0, mega ? 12 : nt * 2);
    if (r.chance(0.25)) nb = 0;
    for (int i = 0; i < nb; i++) {
        sim::Op b;
        b.thr = -1; b.kind = OP_BEHAV;
        b.a = r.range(0, nt - 1);
        b.b = r.chance(0.3);
        b.c = r.chance(0.03) ? B_CLEANUP : r.range(1, 6);
        if (b.c == B_CLEANUP) b.b = 0; // on RUN only
        switch (b.c) {
            case B_SCHED_NOW: case B_CANCEL: case B_SCHED_THEN_CANCEL: b.d = r.range(0, nt - 1); break;
            case B_SCHED_FUT: b.d = r.range(0, nt - 1) * 1000 + r.range(0, 5) * 100 + r.range(0, 4) * 2 + (r.chance(pf) ? 1 : 0); break;
            case B_RESCHED_SELF_FUT: b.d = r.range(0, 400) * 2 + (r.chance(pf) ? 1 : 0); break;
            default: b.d = 0;
        }
        p.ops.push_back(b);
    }
    int nops = (int)r.range(5, tier ? 150 : 60);
    if (many) nops = (int)r.range(300, 700);
    if (mega) nops = (int)r.range(4, 24);
    int bulk_at = mega ? (int)r.range(0, 3) : -1;
    static const std::vector<int64_t> deltas = {0, 1, 2, 7, 100, 1000, 1000000, 3600000000000ll};
    for (int i = 0; i < nops; i++) {
        sim::Op op;
        op.thr = 0;
        uint64_t k = r.below(100);
        if (mega && (i == bulk_at || r.chance(0.12))) {
            bool first = i == bulk_at;
            op.kind = first || r.chance(0.5) ? OP_BULK_SCHED : OP_BULK_CANCEL;
            op.a = first ? 0 : r.range(0, nt - 1);
            op.b = first ? r.range(nt - nt / 8, nt) : r.range(1, nt);
            if (op.kind == OP_BULK_SCHED) { op.c = r.pick(std::vector<int64_t>{0, 1, 2, 3, 3, 4}); op.d = r.pick(deltas); }
        } else
        if (k < 15) { op.kind = OP_SCHED_NOW; op.a = r.range(0, nt - 1); op.b = r.chance(0.1); }
        else if (k < 50) {
            op.kind = OP_SCHED_FUT; op.a = r.range(0, nt - 1);
            op.b = r.pick(std::vector<int64_t>{0, 1, 2, 3, 3, 3, 3, 4, 5, 5});
            op.c = r.pick(deltas);
            op.d = (r.chance(pf) ? 1 : 0) + (r.chance(0.1) ? 2 : 0);
        } else if (k < 62) { op.kind = OP_CANCEL; op.a = r.range(0, nt - 1); op.b = r.chance(0.3); op.c = r.chance(0.5); }
        else if (k < 85) {
            op.kind = OP_RUN_ALL;
            op.a = r.pick(std::vector<int64_t>{0, 0, 0, 5, 5, 5, 5, 1, 2, 3, 4});
            op.b = r.pick(deltas);
            if (op.a == 4 && r.chance(0.7)) op.a = 5; // UINT64_MAX runs everything: keep it rarer
        } else if (k < 90) op.kind = OP_HAS_TASKS;
        else if (k < 93) op.kind = OP_CLEANUP_REINIT;
        else { op.kind = OP_ADVANCE; op.a = r.pick(deltas); }
        p.ops.push_back(op);
    }
}

std::string op_text(const sim::Op &op) {
    char b[160];
    static const char *tm[] = {"t=0", "now-d", "now", "now+d", "UINT64_MAX", "same-as-last"};
    static const char *rm[] = {"now", "repeat-last", "now-d", "0", "UINT64_MAX", "advance-d-then-now"};
    static const char *ba[] = {"?", "schedule_now", "schedule_future", "reschedule-self-now", "reschedule-self-future", "cancel", "schedule-then-cancel", "clean_up of the scheduler"};
    switch (op.kind) {
        case OP_SCHED_NOW: snprintf(b, sizeof b, "schedule_now(task %lld)%s", (long long)op.a, op.b ? " [task->node still carries links of a caller list]" : ""); break;
        case OP_SCHED_FUT: snprintf(b, sizeof b, "schedule_future(task %lld, %s, d=%lld)%s%s", (long long)op.a, tm[op.b % 6], (long long)op.c, (op.d & 1) ? " [push_ref fails]" : "", (op.d & 2) ? " [task->node still carries links of a caller list]" : ""); break;
        case OP_CANCEL: snprintf(b, sizeof b, "cancel(task %lld)%s%s", (long long)op.a, op.b ? " [also if it is not in the scheduler" : "", op.b ? (op.c ? ", after aws_task_init]" : "]") : ""); break;
        case OP_RUN_ALL: snprintf(b, sizeof b, "run_all(%s, d=%lld)", rm[op.a % 6], (long long)op.b); break;
        case OP_HAS_TASKS: snprintf(b, sizeof b, "has_tasks()"); break;
        case OP_CLEANUP_REINIT: snprintf(b, sizeof b, "clean_up(); init()"); break;
        case OP_ADVANCE: snprintf(b, sizeof b, "clock += %lld", (long long)op.a); break;
        case OP_BULK_SCHED: {
            static const char *pt[] = {"all at now+d", "increasing times", "decreasing times", "scattered over [now, now+d]", "run-now"};
            snprintf(b, sizeof b, "bulk schedule %lld tasks from task %lld, %s, d=%lld", (long long)op.b, (long long)op.a, pt[op.c % 5], (long long)op.d);
            break;
        }
        case OP_BULK_CANCEL: snprintf(b, sizeof b, "bulk cancel %lld tasks from task %lld", (long long)op.b, (long long)op.a); break;
        case OP_BEHAV: snprintf(b, sizeof b, "behaviour: task %lld on %s does %s(arg %lld)", (long long)op.a, op.b ? "CANCELED" : "RUN", ba[op.c % 8], (long long)op.d); break;
        default: snprintf(b, sizeof b, "?");
    }
    return b;
}

} // namespace

extern const Harness H_C07 = {
    "C07", "task scheduler exactly once, never early, in time order", gen, run, op_text,
    "Plans: 1-24 tasks (2% 100-300; 0.06% 'mega' plans with 2000-300000 tasks scheduled and cancelled by bulk operations so that every growth step of the timed queue's backing store up to MiBs is passed), 5-150 operations from schedule_now / schedule_future (past, equal, future, 0, UINT64_MAX, duplicate times) / cancel "
    "(only of model-pending tasks) / run_all(now) with the simulated clock and clock faults (repeat, step back, 0, UINT64_MAX) / has_tasks / "
    "clean_up+re-init; per-task behaviours executed inside the task function on RUN or CANCELED (schedule others, re-schedule self, cancel a "
    "pending task incl. one already in the running batch, schedule-then-cancel); injected aws_priority_queue_push_ref failures force the "
    "timed_list fall-back. Distinct = fingerprint of the invocation history (task,status sequence) plus fired faults; non-trivial = at least 3 "
    "invocations and at least one re-entrant behaviour or injected fault fired.",
    "source/task_scheduler.c, priority_queue.c, array_list.c, linked_list.inl, allocator.c (real)",
    "clock (harness value passed to run_all), aws_priority_queue_push_ref failure (link-time wrap), aws_allocator (simulated)"};
