// C15 — ring buffer never hands out overlapping memory, in every interleaving (DESIGN.md §5 C15)
#include "harness.h"

#include <aws/common/byte_buf.h>
#include <aws/common/ring_buffer.h>
#include <aws/common/thread.h>
#include <aws/common/error.h>
#include <aws/common/logging.h>

#include <deque>
#include <vector>
#include <string.h>

namespace {

enum { OP_ACQ = 1, OP_ACQ_UPTO = 2, OP_REL = 3, OP_YIELD = 4, OP_SLEEP = 5 };

struct Entry {
    struct aws_byte_buf buf;
    uint8_t *ptr;
    size_t off; // offset inside the ring (addresses never enter fingerprints)
    size_t cap;
    uint64_t tag;
    int state; // 0 outstanding, 1 release invoked, 2 release returned
};

struct Ctx {
    const sim::Plan *plan;
    struct aws_ring_buffer ring;
    size_t ring_size;
    std::deque<Entry> entries; // in acquisition order (deque: references stay valid across push_back)
    size_t next_release = 0;    // index of next entry to release (FIFO)
    size_t released_returned = 0;
    bool acq_done = false;
    sim::Gate gate;
    uint64_t ops_done = 0;
    bool two_threads = false;
    struct aws_allocator *alloc = nullptr;
    // a logger that ships its lines through the same ring (legal on the acquiring thread): dormant unless the ring code logs
    bool ring_ready = false, in_logger = false, handler_on = false;
    int handler_budget = 8;
    int acq_tid = -1;
    uint64_t log_ctr = 0, nested_acquires = 0;
};
static Ctx *g15 = nullptr;

void check_buf(Ctx &c, const struct aws_byte_buf &b, size_t lo, size_t hi, const char *what) {
    if (b.buffer < c.ring.allocation || b.buffer + b.capacity > c.ring.allocation_end)
        sim::violation("c15:out-of-ring", "%s: buffer [%zd,+%zu) lies outside the ring storage of %zu bytes", what,
                       (ptrdiff_t)(b.buffer - c.ring.allocation), b.capacity, c.ring_size);
    if (b.len != 0) sim::violation("c15:len", "%s: returned buffer has len %zu, expected 0", what, b.len);
    if (b.capacity < lo || b.capacity > hi)
        sim::violation("c15:size", "%s: returned capacity %zu not in [%zu,%zu]", what, b.capacity, lo, hi);
    for (size_t i = 0; i < c.entries.size(); i++) {
        Entry &e = c.entries[i];
        if (e.state != 0) continue; // only buffers whose release has not even been invoked count as "not yet released"
        if (b.buffer < e.ptr + e.cap && e.ptr < b.buffer + b.capacity)
            sim::violation("c15:overlap",
                           "%s: buffer [%zd,+%zu) overlaps outstanding buffer #%zu [%zd,+%zu) whose release has not been invoked", what,
                           (ptrdiff_t)(b.buffer - c.ring.allocation), b.capacity, i, (ptrdiff_t)(e.ptr - c.ring.allocation), e.cap);
    }
}

// Buffers from rings of several GiB (address space only) are patterned and verified at both edges only
static const size_t EDGE = 4096;
void fill_buf(uint8_t *p, size_t n, uint64_t tag) {
    if (n <= 2 * EDGE) { pat::fill(p, n, tag); return; }
    pat::fill(p, EDGE, tag);
    for (size_t i = n - EDGE; i < n; i++) p[i] = pat::byte_at(tag, i);
}
long first_bad_buf(const uint8_t *p, size_t n, uint64_t tag) {
    if (n <= 2 * EDGE) return pat::first_bad(p, n, tag);
    long b = pat::first_bad(p, EDGE, tag);
    if (b >= 0) return b;
    for (size_t i = n - EDGE; i < n; i++) if (p[i] != pat::byte_at(tag, i)) return (long)i;
    return -1;
}

// the library's own membership predicate (the way a consumer serving several rings routes a buffer back): memory that is not inside
// this ring's storage - directly behind it, directly in front of it, straddling either end, or a span longer than the ring - is foreign
void check_foreign(Ctx &c) {
    struct Probe { ptrdiff_t off; size_t cap; const char *what; } probes[] = {
        {(ptrdiff_t)c.ring_size, 1, "starting exactly at the end of the storage"},
        {(ptrdiff_t)c.ring_size, 0, nullptr}, // empty span at the end: either answer is defensible, not asserted
        {-1, 1, "one byte in front of the storage"},
        {-1, 2, "straddling the start of the storage"},
        {(ptrdiff_t)c.ring_size - 1, 2, "straddling the end of the storage"},
        {0, c.ring_size + 1, "longer than the ring"},
        {(ptrdiff_t)c.ring_size + 64, 8, "behind the storage"},
    };
    for (const Probe &pr : probes) {
        if (!pr.what) continue;
        struct aws_byte_buf f;
        AWS_ZERO_STRUCT(f);
        f.buffer = c.ring.allocation + pr.off; // never dereferenced
        f.capacity = pr.cap;
        if (aws_ring_buffer_buf_belongs_to_pool(&c.ring, &f))
            sim::violation("c15:belongs", "aws_ring_buffer_buf_belongs_to_pool is true for foreign memory %s (offset %td, %zu bytes, ring of %zu)", pr.what, pr.off, pr.cap, c.ring_size);
    }
    struct aws_byte_buf whole;
    AWS_ZERO_STRUCT(whole);
    whole.buffer = c.ring.allocation;
    whole.capacity = c.ring_size;
    if (!aws_ring_buffer_buf_belongs_to_pool(&c.ring, &whole)) sim::violation("c15:belongs", "aws_ring_buffer_buf_belongs_to_pool is false for the span of the whole storage");
}

void do_acquire(Ctx &c, const sim::Op &op) {
    size_t n = (size_t)op.a, mn = (size_t)op.b;
    bool upto = op.kind == OP_ACQ_UPTO;
    if (n == 0) n = 1;
    if (upto) { if (mn == 0) mn = 1; if (mn > n) mn = n; }
    // must-succeed rule: everything acquired so far has been released (release returned) and n fits
    bool all_returned = c.released_returned == c.entries.size();
    bool must_succeed = all_returned && n <= c.ring_size;
    struct aws_byte_buf dest;
    AWS_ZERO_STRUCT(dest);
    // the destination may be a descriptor the caller has used before, e.g. one set up with aws_byte_buf_init(&b, allocator, 0): it
    // carries an allocator. What the ring hands out is never the caller's to free: the vended descriptor must not name an allocator.
    const bool had_allocator = ((c.ops_done * 2654435761u) >> 7) % 4 == 0;
    if (had_allocator) dest.allocator = c.alloc;
    void *head_before = aws_atomic_load_ptr(&c.ring.head);
    uint64_t nested_before = c.nested_acquires;
    sim::note(sim::PK_HARNESS, nullptr, upto ? 2 : 1);
    int rc = upto ? aws_ring_buffer_acquire_up_to(&c.ring, mn, n, &dest) : aws_ring_buffer_acquire(&c.ring, n, &dest);
    c.ops_done++;
    if (rc == AWS_OP_SUCCESS) {
        if (upto) check_buf(c, dest, mn, n, "acquire_up_to"); else check_buf(c, dest, n, n, "acquire");
        if (dest.allocator)
            sim::violation("c15:owning-descriptor", "the vended buffer descriptor names an allocator (%s): aws_byte_buf_clean_up or a dynamic append on it would hand ring storage to that allocator",
                           had_allocator ? "left over from the destination the caller passed in" : "although the destination had none");
        if (!aws_ring_buffer_buf_belongs_to_pool(&c.ring, &dest)) sim::violation("c15:belongs", "aws_ring_buffer_buf_belongs_to_pool is false for a buffer the ring has just handed out");
        check_foreign(c);
        Entry e;
        e.buf = dest; e.ptr = dest.buffer; e.off = (size_t)(dest.buffer - c.ring.allocation); e.cap = dest.capacity; e.state = 0;
        e.tag = 0xC15000 + c.entries.size();
        fill_buf(e.ptr, e.cap, e.tag);
        c.entries.push_back(e);
        if (e.cap >= ((size_t)1 << 31)) sim::probe("buffer_of_2GiB_or_more");
        sim::probe("acquire_ok");
        if (e.ptr == c.ring.allocation && c.entries.size() > 1) sim::probe("acquire_wrapped");
        c.gate.notify_all();
    } else {
        if (aws_last_error() != AWS_ERROR_OOM)
            sim::violation("c15:errcode", "failed acquire raised error %d, expected AWS_ERROR_OOM", aws_last_error());
        bool nested = c.nested_acquires != nested_before; // a logger acquired from the ring inside this call: space and head legitimately changed
        if (must_succeed && !nested)
            sim::violation("c15:must-succeed", "acquire%s(%zu) failed although nothing is outstanding (ring size %zu, %zu acquired and released so far)",
                           upto ? "_up_to" : "", n, c.ring_size, c.entries.size());
        if (dest.buffer || dest.len || dest.capacity || dest.allocator != (had_allocator ? c.alloc : nullptr)) sim::violation("c15:failed-changed", "failed acquire modified the destination buffer");
        if (!nested && aws_atomic_load_ptr(&c.ring.head) != head_before) sim::violation("c15:failed-changed", "failed acquire moved the ring head");
        sim::probe("acquire_refused");
    }
}

// ---- logger that takes the memory for its "line" from the ring under test (only on the thread that is allowed to acquire)
int rl_log(struct aws_logger *, enum aws_log_level, aws_log_subject_t, const char *, ...) {
    Ctx *c = g15;
    if (!c || !c->ring_ready || c->in_logger) return AWS_OP_SUCCESS;
    if (sim::self() != c->acq_tid) return AWS_OP_SUCCESS;
    c->in_logger = true;
    sim::probe("ring_code_logged_and_the_logger_acquired_from_the_ring");
    c->nested_acquires++;
    sim::Op op;
    op.kind = OP_ACQ; op.thr = 0;
    size_t lim = c->ring_size < 96 ? c->ring_size : 96;
    op.a = (int64_t)(1 + (c->log_ctr++ * 37) % lim);
    do_acquire(*c, op);
    c->in_logger = false;
    return AWS_OP_SUCCESS;
}
enum aws_log_level rl_level(struct aws_logger *, aws_log_subject_t) { return AWS_LL_TRACE; }
void rl_clean_up(struct aws_logger *) {}
int rl_set_level(struct aws_logger *, enum aws_log_level) { return AWS_OP_SUCCESS; }
struct aws_logger_vtable g_rl_vtable = {rl_log, rl_level, rl_clean_up, rl_set_level};
struct aws_logger g_ring_logger = {&g_rl_vtable, nullptr, nullptr};

// ---- error handler that files an error record through the ring under test (legal on the acquiring thread): it runs whenever the library
// raises an error on that thread - for a failing acquire that is the last thing the call does
void ring_error_handler(int err, void *ud) {
    (void)err;
    Ctx *c = (Ctx *)ud;
    if (!c || !c->ring_ready || c->in_logger || !c->handler_on || c->handler_budget <= 0 || sim::self() != c->acq_tid) return;
    c->handler_budget--;
    c->in_logger = true;
    sim::probe("error_handler_acquired_from_the_ring");
    c->nested_acquires++;
    sim::Op op;
    op.kind = OP_ACQ; op.thr = 0;
    size_t lim = c->ring_size < 24 ? c->ring_size : 24;
    op.a = (int64_t)(1 + (c->log_ctr++ * 13) % lim);
    do_acquire(*c, op);
    c->in_logger = false;
}

void do_release_next(Ctx &c) {
    if (c.next_release >= c.entries.size()) return;
    Entry &e = c.entries[c.next_release];
    long bad = first_bad_buf(e.ptr, e.cap, e.tag);
    if (bad >= 0)
        sim::violation("c15:clobbered", "buffer #%zu [%zd,+%zu): byte %ld was overwritten while the buffer was outstanding", c.next_release,
                       (ptrdiff_t)(e.ptr - c.ring.allocation), e.cap, bad);
    e.state = 1;
    c.next_release++;
    sim::note(sim::PK_HARNESS, nullptr, 3);
    // the consumer hands back a buffer it has written to: len is whatever it filled (0, part, or all of the capacity)
    e.buf.len = (c.next_release % 3 == 0) ? 0 : (c.next_release % 3 == 1) ? e.cap : e.cap / 2;
    // In single-thread plans the descriptor sometimes lives inside the buffer it describes (a message header at the start of its own
    // payload): release gets a pointer into ring memory. (With a concurrent acquirer that layout is the caller's problem: the library
    // resets the descriptor after it has published the span.)
    struct aws_byte_buf *desc = &e.buf;
    const bool in_band = !c.two_threads && e.cap >= sizeof(struct aws_byte_buf) + 8 && ((uintptr_t)e.ptr % 8) == 0 && (c.next_release * 2654435761u >> 5) % 4 == 0;
    if (in_band) {
        desc = (struct aws_byte_buf *)e.ptr;
        *desc = e.buf;
        sim::probe("descriptor_stored_inside_the_buffer_it_describes");
    }
    aws_ring_buffer_release(&c.ring, desc);
    e.state = 2;
    c.released_returned++;
    c.ops_done++;
    if (desc->buffer || desc->capacity) sim::violation("c15:release-zero", "release did not reset the caller's buffer struct");
    if (in_band) AWS_ZERO_STRUCT(e.buf);
}

void run_ops(Ctx &c, int thr) {
    for (const sim::Op &op : c.plan->ops) {
        if (op.thr != thr) continue;
        if (c.plan->get("poison_errors", 0)) hx::poison_errors(c.plan->seed, sim::seq());
        switch (op.kind) {
            case OP_ACQ:
            case OP_ACQ_UPTO: do_acquire(c, op); break;
            case OP_REL:
                if (c.two_threads) c.gate.wait_until([&] { return c.next_release < c.entries.size() || c.acq_done; });
                do_release_next(c);
                break;
            case OP_YIELD: sim::yield(); break;
            case OP_SLEEP: sim::sleep_ns((uint64_t)op.a); break;
        }
        if (!c.two_threads && !aws_ring_buffer_is_valid(&c.ring)) sim::violation("c15:invalid", "ring validity predicate is false after an operation");
    }
}

void acquirer_fn(void *arg) {
    Ctx &c = *(Ctx *)arg;
    c.acq_tid = sim::self();
    run_ops(c, 0);
    c.acq_done = true;
    c.gate.notify_all();
}
void releaser_fn(void *arg) {
    Ctx &c = *(Ctx *)arg;
    run_ops(c, 1);
    // drain: release everything that is still outstanding, in order
    for (;;) {
        c.gate.wait_until([&] { return c.next_release < c.entries.size() || c.acq_done; });
        if (c.next_release >= c.entries.size()) break;
        do_release_next(c);
    }
}

RunInfo run(const sim::Plan &plan) {
    simalloc::Config ac;
    ac.seed = plan.seed;
    struct aws_allocator *alloc = simalloc::create(ac);
    Ctx c;
    c.plan = &plan;
    c.alloc = alloc;
    c.ring_size = (size_t)plan.get("ring_size", 16);
    c.two_threads = plan.get("two_threads", 1) != 0;
    sim::begin(plan);
    if (aws_ring_buffer_init(&c.ring, alloc, c.ring_size)) sim::violation("c15:init", "ring buffer init failed");
    g15 = &c;
    c.acq_tid = sim::self();
    c.ring_ready = true;
    aws_logger_set(&g_ring_logger);
    c.handler_on = plan.get("error_handler", 0) != 0;
    aws_error_handler_fn *old_handler = c.handler_on ? aws_set_global_error_handler_fn(ring_error_handler, &c) : nullptr;
    if (c.two_threads) {
        struct aws_thread ta, tr;
        aws_thread_init(&ta, alloc);
        aws_thread_init(&tr, alloc);
        if (aws_thread_launch(&ta, acquirer_fn, &c, nullptr) || aws_thread_launch(&tr, releaser_fn, &c, nullptr))
            sim::violation("c15:harness", "thread launch failed");
        aws_thread_join(&ta);
        aws_thread_join(&tr);
        aws_thread_clean_up(&ta);
        aws_thread_clean_up(&tr);
    } else {
        run_ops(c, 0);
        while (c.next_release < c.entries.size()) do_release_next(c);
    }
    // quiescent: everything released
    if (!aws_ring_buffer_is_valid(&c.ring)) sim::violation("c15:invalid", "ring validity predicate is false at quiescence");
    if (c.released_returned != c.entries.size()) sim::violation("c15:harness", "not everything was released");
    {
        struct aws_byte_buf full;
        AWS_ZERO_STRUCT(full);
        if (aws_ring_buffer_acquire(&c.ring, c.ring_size, &full) != AWS_OP_SUCCESS)
            sim::violation("c15:full-capacity", "after every buffer was released, acquire(capacity=%zu) fails", c.ring_size);
        if (full.buffer != c.ring.allocation || full.capacity != c.ring_size)
            sim::violation("c15:full-capacity", "full-capacity buffer is not the whole ring");
        aws_ring_buffer_release(&c.ring, &full);
        struct aws_byte_buf over;
        AWS_ZERO_STRUCT(over);
        if (aws_ring_buffer_acquire(&c.ring, c.ring_size + 1, &over) == AWS_OP_SUCCESS)
            sim::violation("c15:size", "acquire(capacity+1) succeeded");
    }
    c.ring_ready = false;
    if (c.handler_on) aws_set_global_error_handler_fn(old_handler, nullptr);
    aws_logger_set(nullptr);
    g15 = nullptr;
    aws_ring_buffer_clean_up(&c.ring);
    simalloc::expect_balanced("end of run");
    RunInfo ri;
    ri.st = sim::end();
    ri.ops_done = c.ops_done;
    if (c.two_threads) {
        ri.case_fp = ri.st.sync_fp;
        ri.nontrivial = ri.st.shared_objs >= 1 && ri.st.preemptions >= 1 && c.entries.size() >= 2;
    } else {
        uint64_t h = 15;
        for (auto &e : c.entries) h = sim::mix64(h, (uint64_t)e.off * 65536 + e.cap);
        h = sim::mix64(h, c.ring_size);
        for (auto &op : plan.ops) h = sim::mix64(h, (uint64_t)op.kind * 1000003 + (uint64_t)op.a * 31 + (uint64_t)op.b);
        ri.case_fp = h;
        ri.nontrivial = c.entries.size() >= 2 && ri.st.probes.count("acquire_refused");
    }
    return ri;
}

void gen(uint64_t seed, int tier, sim::Plan &p) {
    sim::Rng r(sim::mix64(seed, 0xC15));
    p = sim::Plan();
    p.prop = "C15";
    p.seed = seed;
    static const std::vector<int64_t> sizes = {1, 2, 3, 8, 16, 64, 100, 4096};
    int64_t rs = r.pick(sizes);
    // rings of 2-8 GiB (address space only: the ring code never touches the bytes): head and tail can be 2^31 and more apart
    if (r.chance(tier ? 0.03 : 0.015))
        rs = r.pick(std::vector<int64_t>{(int64_t)1 << 31, ((int64_t)1 << 31) + 1, (int64_t)3 << 30, ((int64_t)1 << 32) - 1, (int64_t)1 << 32, ((int64_t)1 << 32) + 4096, (int64_t)5 << 30, (int64_t)1 << 33});
    p.cfg["ring_size"] = rs;
    bool two = r.chance(0.8);
    p.cfg["two_threads"] = two;
    if (r.chance(0.25)) p.cfg["error_handler"] = 1; // an error handler that acquires from the ring when an error is raised on the acquiring thread
    hgen::sched_config(r, p, two, false, true, false, -1);
    int nacq = (int)r.range(2, tier ? 200 : 40);
    if (r.chance(0.3)) nacq = (int)r.range(2, 8);
    int style = (int)r.below(4); // 0 mixed, 1 small, 2 near capacity, 3 free-space +-1 style
    for (int i = 0; i < nacq; i++) {
        sim::Op op;
        op.thr = 0;
        int64_t n;
        uint64_t k = r.below(10);
        if (style == 1) n = r.range(1, rs > 4 ? rs / 4 : 1);
        else if (style == 2) n = r.range(rs > 2 ? rs - 2 : 1, rs + 1);
        else if (k < 2) n = 1;
        else if (k < 3) n = rs;
        else if (k < 4) n = rs > 1 ? rs - 1 : 1;
        else if (k < 5) n = rs + 1;
        else if (k < 7) n = r.range(1, rs > 2 ? rs / 2 : 1);
        else n = r.range(1, rs + 1);
        if (n < 1) n = 1;
        if (r.chance(0.02)) n = r.pick(std::vector<int64_t>{-1, -2, -4097, INT64_MAX, (int64_t)1 << 40}); // maximal requests (interpreted as size_t: SIZE_MAX, ...)
        if (r.chance(0.4)) {
            op.kind = OP_ACQ_UPTO;
            op.a = n;
            op.b = (n < 0 || n > rs + 1) ? r.range(1, rs + 1) : (r.chance(0.4) ? 1 : r.range(1, n));
        } else {
            op.kind = OP_ACQ;
            op.a = n;
        }
        p.ops.push_back(op);
        if (two) {
            if (r.chance(0.15)) { sim::Op y; y.thr = 0; y.kind = OP_YIELD; p.ops.push_back(y); }
            sim::Op rel;
            rel.thr = 1;
            rel.kind = OP_REL;
            if (r.chance(0.2)) { sim::Op s; s.thr = 1; s.kind = OP_SLEEP; s.a = r.range(1, 100000); p.ops.push_back(s); }
            p.ops.push_back(rel);
        } else {
            int nrel = (int)r.below(3);
            for (int j = 0; j < nrel; j++) { sim::Op rel; rel.thr = 0; rel.kind = OP_REL; p.ops.push_back(rel); }
        }
    }
    p.cfg["soft_budget"] = 100000;
    p.cfg["hard_budget"] = 1000000;
}

std::string op_text(const sim::Op &op) {
    char b[128];
    switch (op.kind) {
        case OP_ACQ: snprintf(b, sizeof b, "T%d acquire(%lld)", op.thr, (long long)op.a); break;
        case OP_ACQ_UPTO: snprintf(b, sizeof b, "T%d acquire_up_to(min=%lld, requested=%lld)", op.thr, (long long)op.b, (long long)op.a); break;
        case OP_REL: snprintf(b, sizeof b, "T%d release(next in FIFO order)", op.thr); break;
        case OP_YIELD: snprintf(b, sizeof b, "T%d yield", op.thr); break;
        case OP_SLEEP: snprintf(b, sizeof b, "T%d sleep(%lld ns)", op.thr, (long long)op.a); break;
        default: snprintf(b, sizeof b, "T%d ?", op.thr);
    }
    return b;
}

} // namespace

extern const Harness H_C15 = {
    "C15", "ring buffer never hands out overlapping memory", gen, run, op_text,
    "Plans: ring size from {1,2,3,8,16,64,100,4096} (1.5%: 2 GiB ... 8 GiB, address space only), 2-200 acquire/acquire_up_to requests biased to {1, capacity-1, capacity, capacity+1, "
    "fractions}, FIFO releases with generated delays; 80% two-thread runs (acquirer + releaser, decision point at every atomic load/store "
    "of head/tail), 20% single-thread histories. Distinct = synchronisation-order fingerprint (per-object sequence of operating threads); "
    "non-trivial = both threads operated on a shared atomic, at least one preemption and at least two successful acquires "
    "(single-thread: distinct plan/placement fingerprints with at least one refused acquire).",
    "source/ring_buffer.c, ring_buffer.inl, atomics_gnu.inl, byte_buf.c, posix/thread.c, allocator.c (real, from /repo working tree)",
    "pthread create/join and scheduling (simulated), aws_allocator (simulated allocator with guard bands)"};
