// C17 — memory tracer's byte and allocation counts always equal what is live (DESIGN.md §5 C17)
#include "harness.h"

#include <aws/common/allocator.h>
#include <aws/common/logging.h>
#include <aws/common/log_channel.h>
#include <aws/common/log_formatter.h>
#include <aws/common/log_writer.h>
#include <aws/common/string.h>
#include <aws/common/thread.h>
#include <aws/common/error.h>

#include <vector>
#include <map>
#include <string>
#include <algorithm>
#include <string.h>

namespace {

enum { OP_ACQ = 1, OP_CALLOC, OP_REALLOC, OP_REL, OP_SEND, OP_RECV, OP_CHECKPOINT, OP_YIELD, OP_REALLOC_NULL, OP_QUERY, OP_DUMP, OP_BULK, OP_FOREIGN };
static const int MAXW = 4;

struct Block { uint8_t *p; size_t size; uint64_t tag; bool tracked = true; }; // tracked = false: obtained from the wrapped allocator behind the tracer's back
struct Worker { std::vector<Block> own, mailbox; bool finished = false; };

struct Ctx {
    const sim::Plan *plan;
    struct aws_allocator *parent;
    struct aws_allocator *tr = nullptr;
    int level = 1;
    Worker w[MAXW + 1];
    int nworkers = 1;
    std::map<uintptr_t, Block> live;
    uint64_t next_tag = 1, ops_done = 0;
    int arrived = 0;
    uint64_t generation = 0;
    sim::Gate gate;
    int checkpoints = 0, dumps = 0;
    // dump capture
    bool capturing = false;
    std::vector<size_t> dump_sizes;
    int dump_stack_entries = 0;
    bool dump_begin = false, dump_end = false;
    std::map<int, int> in_dump; // per simulated thread: inside aws_mem_tracer_dump
    struct aws_logger logger;
    struct aws_log_formatter formatter;
    struct aws_log_channel channel;
    struct aws_log_writer writer;
};
static Ctx *g = nullptr;

int rec_write(struct aws_log_writer *w, const struct aws_string *out) {
    (void)w;
    Ctx &c = *g;
    // a log sink may ask the tracer for its totals (e.g. to stamp every line with the outstanding byte count). That is legal outside a dump
    // (the dump logs with the tracer's lock held, which is documented); the query takes the tracer's lock, so a tracer that logs from
    // inside its other critical sections deadlocks against itself.
    if (c.tr && !c.in_dump[sim::self()]) { (void)aws_mem_tracer_bytes(c.tr); (void)aws_mem_tracer_count(c.tr); }
    if (!c.capturing) return AWS_OP_SUCCESS;
    std::string line((const char *)out->bytes, out->len);
    size_t pos = line.find(" - ALLOC ");
    if (pos != std::string::npos) {
        size_t sz = 0;
        if (sscanf(line.c_str() + pos + 9, "%zu bytes", &sz) == 1) c.dump_sizes.push_back(sz);
        if (line.find("stacktrace:") != std::string::npos) c.dump_stack_entries++;
    }
    if (line.find("BEGIN MEMTRACE DUMP") != std::string::npos) c.dump_begin = true;
    if (line.find("END MEMTRACE DUMP") != std::string::npos) c.dump_end = true;
    return AWS_OP_SUCCESS;
}
void rec_clean(struct aws_log_writer *w) { (void)w; }
struct aws_log_writer_vtable g_vt = {rec_write, rec_clean};

#define DUMP(c) do { (c).in_dump[sim::self()]++; aws_mem_tracer_dump((c).tr); (c).in_dump[sim::self()]--; } while (0)

void check_new(Ctx &c, uint8_t *p, size_t size, const char *what) {
    if (!p) sim::violation("c17:null", "%s(%zu) returned NULL", what, size);
    auto it = c.live.upper_bound((uintptr_t)p);
    if (it != c.live.begin()) {
        auto pr = std::prev(it);
        if (pr->first + pr->second.size > (uintptr_t)p) sim::violation("c17:overlap", "%s(%zu) returned memory overlapping a live block", what, size);
    }
    if (it != c.live.end() && (uintptr_t)p + size > it->first) sim::violation("c17:overlap", "%s(%zu) returned memory overlapping a live block", what, size);
}
void verify(const Block &b, const char *when) {
    long bad = pat::first_bad(b.p, b.size, b.tag);
    if (bad >= 0) sim::violation("c17:clobbered", "%s: live block of %zu bytes modified at offset %ld", when, b.size, bad);
}
Block place(Ctx &c, uint8_t *p, size_t size, bool tracked = true) {
    Block b{p, size, c.next_tag++, tracked};
    pat::fill(p, size, b.tag);
    c.live[(uintptr_t)p] = b;
    return b;
}

void quiescent_check(Ctx &c, const char *where, bool dump) {
    size_t want_bytes = 0, want_count = 0;
    for (auto &kv : c.live) { verify(kv.second, where); if (kv.second.tracked) { want_bytes += kv.second.size; want_count++; } }
    if (c.level == 0) { want_bytes = 0; want_count = 0; }
    size_t bytes = aws_mem_tracer_bytes(c.tr), count = aws_mem_tracer_count(c.tr);
    if (bytes != want_bytes)
        sim::violation("c17:bytes", "%s: tracer reports %zu bytes outstanding, the live allocations add up to %zu (%zu live)", where, bytes, want_bytes, c.live.size());
    if (count != want_count) sim::violation("c17:count", "%s: tracer reports %zu allocations, %zu are live", where, count, want_count);
    c.checkpoints++;
    if (dump) {
        c.capturing = true;
        c.dump_sizes.clear();
        c.dump_stack_entries = 0;
        c.dump_begin = c.dump_end = false;
        DUMP(c);
        c.capturing = false;
        c.dumps++;
        if (aws_mem_tracer_bytes(c.tr) != bytes || aws_mem_tracer_count(c.tr) != count)
            sim::violation("c17:dump-changes-accounting", "%s: dump changed the accounting (%zu/%zu -> %zu/%zu)", where, bytes, count, aws_mem_tracer_bytes(c.tr),
                           aws_mem_tracer_count(c.tr));
        if (c.level != 0 && want_bytes > 0) {
            if (!c.dump_begin || !c.dump_end) sim::violation("c17:dump", "%s: dump did not produce its begin/end markers", where);
            std::vector<size_t> want;
            for (auto &kv : c.live) if (kv.second.tracked) want.push_back(kv.second.size);
            std::vector<size_t> got = c.dump_sizes;
            std::sort(want.begin(), want.end());
            std::sort(got.begin(), got.end());
            if (want != got)
                sim::violation("c17:dump", "%s: dump listed %zu ALLOC entries, %zu allocations are live (or their sizes differ)", where, got.size(), want.size());
            if (c.level == 2 && c.dump_stack_entries != (int)want.size())
                sim::violation("c17:dump", "%s: %d of %zu dumped allocations carry a stack trace at level STACKS", where, c.dump_stack_entries, want.size());
            sim::probe("dump_with_live_allocations");
        } else if (!c.dump_sizes.empty()) sim::violation("c17:dump", "%s: dump listed allocations although none should be reported", where);
    }
    simalloc::check_all(where);
}

// A few allocations from one fixed call site of the main thread, an exact check with a dump, and their release. Run once on the first
// tracer of the run and once more on a second tracer created after the first was destroyed (same thread, same call site, very likely
// the same address for the tracer's own state): nothing a thread remembers about a tracer may outlive that tracer.
void mini_round(Ctx &c, const char *where) {
    std::vector<Block> blk;
    for (int i = 0; i < 3; i++) {
        size_t n = 40 + (size_t)i;
        uint8_t *p = (uint8_t *)aws_mem_acquire(c.tr, n);
        check_new(c, p, n, "acquire (fixed call site)");
        blk.push_back(place(c, p, n));
    }
    quiescent_check(c, where, true);
    for (const Block &b : blk) { verify(b, where); c.live.erase((uintptr_t)b.p); aws_mem_release(c.tr, b.p); }
}

void run_worker(Ctx &c, int idx) {
    Worker &w = c.w[idx];
    for (const sim::Op &op : c.plan->ops) {
        if (op.thr != idx) continue;
        if (c.plan->get("poison_errors", 0)) hx::poison_errors(c.plan->seed, sim::seq());
        sim::note(sim::PK_HARNESS, nullptr, op.kind);
        switch (op.kind) {
            case OP_ACQ: {
                size_t n = (size_t)op.a; if (!n) n = 1;
                uint8_t *p = (uint8_t *)aws_mem_acquire(c.tr, n);
                check_new(c, p, n, "acquire");
                w.own.push_back(place(c, p, n));
                c.ops_done++;
                break;
            }
            case OP_CALLOC: {
                size_t num = (size_t)op.a, sz = (size_t)op.b; if (!num) num = 1; if (!sz) sz = 1;
                uint8_t *p = (uint8_t *)aws_mem_calloc(c.tr, num, sz);
                check_new(c, p, num * sz, "calloc");
                for (size_t i = 0; i < num * sz; i++) if (p[i]) sim::violation("c17:calloc-dirty", "calloc(%zu,%zu): byte %zu is not zero", num, sz, i);
                w.own.push_back(place(c, p, num * sz));
                c.ops_done++;
                break;
            }
            case OP_FOREIGN: {
                // The tracer may be installed midstream (memtrace.c: "it is possible for an allocation to not be tracked"): a block from
                // the wrapped allocator itself is later resized or released through the tracer. It is not counted until a realloc through
                // the tracer records its successor; its contents survive like anybody else's.
                size_t n = (size_t)op.a; if (!n) n = 1;
                uint8_t *p = (uint8_t *)aws_mem_acquire(c.parent, n);
                check_new(c, p, n, "acquire (wrapped allocator, untracked)");
                w.own.push_back(place(c, p, n, false));
                sim::probe("block_obtained_behind_the_tracers_back");
                c.ops_done++;
                break;
            }
            case OP_REALLOC_NULL: {
                size_t n = (size_t)op.a; if (!n) n = 1;
                void *p = nullptr;
                if (aws_mem_realloc(c.tr, &p, 0, n)) sim::violation("c17:realloc", "realloc from NULL failed");
                check_new(c, (uint8_t *)p, n, "realloc(NULL)");
                w.own.push_back(place(c, (uint8_t *)p, n));
                c.ops_done++;
                break;
            }
            case OP_REALLOC: {
                if (w.own.empty()) break;
                size_t i = (size_t)op.a % w.own.size();
                Block b = w.own[i];
                size_t n = op.b < 0 ? b.size : (size_t)op.b; // -1: same size
                verify(b, "before realloc");
                c.live.erase((uintptr_t)b.p);
                void *p = b.p;
                if (aws_mem_realloc(c.tr, &p, b.size, n)) sim::violation("c17:realloc", "realloc(%zu -> %zu) failed", b.size, n);
                c.ops_done++;
                if (n == 0) {
                    if (p) sim::violation("c17:realloc", "realloc to 0 did not reset the pointer");
                    w.own.erase(w.own.begin() + (long)i);
                    break;
                }
                size_t keep = b.size < n ? b.size : n;
                check_new(c, (uint8_t *)p, n, "realloc");
                long bad = pat::first_bad(p, keep, b.tag);
                if (bad >= 0) sim::violation("c17:realloc-lost", "realloc(%zu -> %zu): old contents not preserved at offset %ld", b.size, n, bad);
                if (p == b.p) sim::probe("realloc_kept_address"); else sim::probe("realloc_moved");
                if (!b.tracked) sim::probe("untracked_block_reallocated_through_tracer");
                w.own[i] = place(c, (uint8_t *)p, n);
                break;
            }
            case OP_REL: {
                if (w.own.empty()) break;
                size_t i = (size_t)op.a % w.own.size();
                Block b = w.own[i];
                verify(b, "before release");
                if (!b.tracked) sim::probe("untracked_block_released_through_tracer");
                c.live.erase((uintptr_t)b.p);
                w.own.erase(w.own.begin() + (long)i);
                aws_mem_release(c.tr, b.p);
                c.ops_done++;
                break;
            }
            case OP_SEND: {
                if (w.own.empty() || c.nworkers < 2) break;
                size_t i = (size_t)op.a % w.own.size();
                int to = 1 + (int)((size_t)op.b % (size_t)c.nworkers);
                if (to == idx) to = 1 + (to % c.nworkers);
                c.w[to].mailbox.push_back(w.own[i]);
                w.own.erase(w.own.begin() + (long)i);
                sim::probe("block_handed_to_other_thread");
                break;
            }
            case OP_RECV:
                for (auto &b : w.mailbox) w.own.push_back(b);
                w.mailbox.clear();
                break;
            case OP_BULK: {
                // many live allocations at once: pushes the tracer's address table past its initial size (1024 slots)
                size_t n = (size_t)op.a;
                for (size_t k = 0; k < n; k++) {
                    size_t sz = 1 + (size_t)((op.b + (int64_t)k * 7) % 24);
                    uint8_t *p = (uint8_t *)aws_mem_acquire(c.tr, sz);
                    check_new(c, p, sz, "acquire (bulk)");
                    w.own.push_back(place(c, p, sz));
                }
                c.ops_done += n;
                sim::probe("bulk_allocation_phase");
                if (c.live.size() > 1024) sim::probe("more_than_1024_live_allocations");
                break;
            }
            case OP_YIELD: sim::yield(); break;
            case OP_QUERY: (void)aws_mem_tracer_bytes(c.tr); (void)aws_mem_tracer_count(c.tr); break;
            case OP_DUMP: DUMP(c); sim::probe("concurrent_dump"); break;
            case OP_CHECKPOINT: {
                if (c.nworkers == 1) { quiescent_check(c, "checkpoint", op.a != 0); break; }
                uint64_t gen = c.generation;
                c.arrived++;
                int active = 0;
                for (int k = 1; k <= c.nworkers; k++) if (!c.w[k].finished) active++;
                if (c.arrived >= active) {
                    quiescent_check(c, "checkpoint (all threads parked)", op.a != 0);
                    c.arrived = 0;
                    c.generation++;
                    c.gate.notify_all();
                } else c.gate.wait_until([&] { return c.generation != gen; });
                break;
            }
        }
        if (c.nworkers == 1 && op.kind != OP_CHECKPOINT) quiescent_check(c, "after operation (single thread)", false);
    }
    w.finished = true;
    int active = 0;
    for (int k = 1; k <= c.nworkers; k++) if (!c.w[k].finished) active++;
    if (active > 0 && c.arrived >= active) {
        quiescent_check(c, "checkpoint (all remaining threads parked)", false);
        c.arrived = 0;
        c.generation++;
    }
    c.gate.notify_all();
}

struct WArg { Ctx *c; int idx; };
void worker_fn(void *a) { WArg *wa = (WArg *)a; run_worker(*wa->c, wa->idx); }

RunInfo run(const sim::Plan &plan) {
    simalloc::Config ac;
    ac.seed = plan.seed;
    ac.has_realloc = plan.get("alloc_realloc", 1) != 0;
    ac.has_calloc = plan.get("alloc_calloc", 1) != 0;
    ac.yield_points = plan.get("alloc_yield", 0) != 0;
    ac.p_reuse = (double)plan.get("alloc_reuse_permille", 700) / 1000.0;
    ac.p_move = (double)plan.get("alloc_move_permille", 500) / 1000.0;
    Ctx c;
    g = &c;
    c.plan = &plan;
    c.parent = simalloc::create(ac);
    c.level = (int)plan.get("level", 1) % 3;
    int requested_level = c.level;
    if (c.level == 2 && plan.get("backtrace_mode", 0) == 1) { c.level = 1; } // no backtrace support: the tracer documents falling back to byte counting
    c.nworkers = (int)plan.get("nworkers", 2);
    if (c.nworkers < 1) c.nworkers = 1;
    if (c.nworkers > MAXW) c.nworkers = MAXW;
    sim::begin(plan);
    // TRACE-level logger with a recording writer, built on the (untraced) simulated allocator
    struct aws_log_formatter_standard_options fo = {AWS_DATE_FORMAT_ISO_8601};
    aws_log_formatter_init_default(&c.formatter, c.parent, &fo);
    c.writer.vtable = &g_vt; c.writer.allocator = c.parent; c.writer.impl = nullptr;
    aws_log_channel_init_foreground(&c.channel, c.parent, &c.writer);
    aws_logger_init_from_external(&c.logger, c.parent, &c.formatter, &c.channel, &c.writer, AWS_LL_TRACE);
    aws_logger_set(&c.logger);

    c.tr = aws_mem_tracer_new(c.parent, nullptr, (enum aws_mem_trace_level)requested_level, (size_t)plan.get("frames", 8));
    if (requested_level != c.level) sim::probe("stacks_level_clamped_without_backtrace");
    if (!c.tr) sim::violation("c17:new", "aws_mem_tracer_new returned NULL");
    if (aws_mem_tracer_bytes(c.tr) != 0 || aws_mem_tracer_count(c.tr) != 0) sim::violation("c17:bytes", "fresh tracer reports outstanding memory");
    if (c.nworkers == 1 && !plan.get("use_thread", 0)) run_worker(c, 1);
    else {
        struct aws_thread th[MAXW];
        WArg wa[MAXW];
        for (int i = 0; i < c.nworkers; i++) {
            wa[i] = WArg{&c, i + 1};
            aws_thread_init(&th[i], c.parent);
            if (aws_thread_launch(&th[i], worker_fn, &wa[i], nullptr)) sim::violation("c17:harness", "launch failed");
        }
        for (int i = 0; i < c.nworkers; i++) { aws_thread_join(&th[i]); aws_thread_clean_up(&th[i]); }
    }
    const bool second = plan.get("second_lifetime", 0) != 0;
    if (second) mini_round(c, "fixed call site, first tracer");
    quiescent_check(c, "after all threads finished", true);
    std::vector<Block> rest;
    for (int k = 1; k <= c.nworkers; k++) {
        for (auto &b : c.w[k].own) rest.push_back(b);
        for (auto &b : c.w[k].mailbox) rest.push_back(b);
    }
    sim::Rng r(sim::mix64(plan.seed, 0x4E57));
    // cfg "keep_live": that many blocks stay alive across aws_mem_tracer_destroy ("unwraps the traced allocator ... returns the original
    // allocator"): they are the caller's, keep their contents, and are released through the returned allocator afterwards
    std::vector<Block> kept;
    size_t keep = (size_t)plan.get("keep_live", 0);
    while (!rest.empty()) {
        size_t i = r.below(rest.size());
        Block b = rest[i];
        rest.erase(rest.begin() + (long)i);
        verify(b, "final release");
        if (kept.size() < keep) { kept.push_back(b); continue; }
        c.live.erase((uintptr_t)b.p);
        aws_mem_release(c.tr, b.p);
    }
    if (kept.empty()) {
        if (aws_mem_tracer_bytes(c.tr) != 0) sim::violation("c17:bytes", "everything released but the tracer reports %zu bytes", aws_mem_tracer_bytes(c.tr));
        if (aws_mem_tracer_count(c.tr) != 0) sim::violation("c17:count", "everything released but the tracer reports %zu allocations", aws_mem_tracer_count(c.tr));
        DUMP(c); // with nothing live: must be a no-op
    } else {
        quiescent_check(c, "before destroying the tracer with live allocations", true);
        sim::probe("tracer_destroyed_with_live_allocations");
    }
    size_t parent_live_before = simalloc::live_count();
    struct aws_allocator *dying = c.tr;
    c.tr = nullptr; // the sink stops querying
    // the tracer keeps its own state (with an atomic counter in it) on the real heap: whether a later tracer of this run gets the same
    // address is the heap's business, not the run's
    sim::forget_objects(dying->impl, 1024);
    struct aws_allocator *back = aws_mem_tracer_destroy(dying);
    if (back != c.parent) sim::violation("c17:destroy", "aws_mem_tracer_destroy did not return the wrapped allocator");
    for (const Block &b : kept) {
        size_t bs = simalloc::block_size(b.p); // may be larger than the logical size (a shrinking realloc without mem_realloc keeps the block)
        if (bs == (size_t)-1 || bs < b.size) sim::violation("c17:destroy", "destroying the tracer released a live allocation of %zu bytes that belongs to the caller", b.size);
        verify(b, "after the tracer was destroyed");
    }
    (void)parent_live_before;
    for (const Block &b : kept) { c.live.erase((uintptr_t)b.p); aws_mem_release(back, b.p); }
    if (second) {
        c.tr = aws_mem_tracer_new(c.parent, nullptr, (enum aws_mem_trace_level)requested_level, (size_t)plan.get("frames", 8));
        if (!c.tr) sim::violation("c17:new", "second aws_mem_tracer_new returned NULL");
        sim::probe("second_tracer_lifetime_in_the_same_run");
        if (aws_mem_tracer_bytes(c.tr) != 0 || aws_mem_tracer_count(c.tr) != 0) sim::violation("c17:bytes", "fresh (second) tracer reports outstanding memory");
        mini_round(c, "fixed call site, second tracer");
        if (aws_mem_tracer_bytes(c.tr) != 0 || aws_mem_tracer_count(c.tr) != 0) sim::violation("c17:bytes", "second tracer: everything released but it reports outstanding memory");
        struct aws_allocator *d2 = c.tr;
        c.tr = nullptr;
        if (aws_mem_tracer_destroy(d2) != c.parent) sim::violation("c17:destroy", "aws_mem_tracer_destroy (second tracer) did not return the wrapped allocator");
    }
    aws_logger_set(nullptr);
    aws_logger_clean_up(&c.logger);
    aws_log_channel_clean_up(&c.channel);
    aws_log_formatter_clean_up(&c.formatter);
    if (sim::mutex_held_any()) sim::violation("c17:lock-held", "a mutex is still locked at the end of the run");
    simalloc::expect_balanced("after tracer destroy");
    RunInfo ri;
    ri.st = sim::end();
    ri.ops_done = c.ops_done;
    uint64_t h = ri.st.sync_fp;
    for (const sim::Op &op : plan.ops) h = sim::mix64(h, (uint64_t)op.kind * 1000003ull + (uint64_t)op.a * 31 + (uint64_t)op.b + (uint64_t)op.thr * 7919);
    h = sim::mix64(h, (uint64_t)c.level * 3 + simalloc::moved_count() * 5 + simalloc::reuse_count());
    ri.case_fp = h;
    ri.nontrivial = c.ops_done >= 4 && c.level != 0 && (c.nworkers == 1 ? c.checkpoints >= 2 : (ri.st.shared_objs >= 1 && ri.st.preemptions >= 1));
    g = nullptr;
    return ri;
}

void gen(uint64_t seed, int tier, sim::Plan &p) {
    sim::Rng r(sim::mix64(seed, 0xC17));
    p = sim::Plan();
    p.prop = "C17";
    p.seed = seed;
    int nw = (int)r.range(1, 4);
    p.cfg["nworkers"] = nw;
    p.cfg["use_thread"] = r.chance(0.5);
    p.cfg["level"] = r.pick(std::vector<int64_t>{0, 1, 1, 1, 2, 2});
    p.cfg["frames"] = r.pick(std::vector<int64_t>{0, 1, 8, 16, 200});
    hgen::sched_config(r, p, nw > 1, false, true, false, -1);
    p.cfg["alloc_realloc"] = r.chance(0.75);
    p.cfg["alloc_calloc"] = r.chance(0.75);
    p.cfg["alloc_yield"] = r.chance(0.5);
    p.cfg["alloc_reuse_permille"] = r.pick(std::vector<int64_t>{300, 700, 1000});
    // the tracer only time-stamps allocations and ignores a failing clock: environments without CLOCK_BOOTTIME (every read fails)
    // or with occasional failures are legal for it
    // systems where backtrace() is unsupported (the tracer falls back to byte counting) or yields very shallow stacks
    if (r.chance(0.25)) p.cfg["backtrace_mode"] = r.range(1, 5); // 1 unsupported, 2 one frame, 3 two frames, 4 as deep as the tracer asks for, 5 every call from a call site of its own
    if (r.chance(0.15)) p.cfg["p_clockfail_boot"] = r.pick(std::vector<int64_t>{1000000, 1000000, 50000, 300000});
    p.cfg["alloc_move_permille"] = r.pick(std::vector<int64_t>{0, 500, 1000});
    if (r.chance(0.25)) p.cfg["keep_live"] = r.range(1, 4);
    if (r.chance(0.3)) p.cfg["second_lifetime"] = 1;
    static const std::vector<int64_t> sizes = {1, 8, 16, 16, 16, 32, 32, 64, 100, 1000, 5000};
    int maxops = tier ? 100 : 40;
    for (int t = 1; t <= nw; t++) {
        int n = (int)r.range(4, maxops);
        for (int i = 0; i < n; i++) {
            sim::Op op;
            op.thr = t;
            uint64_t k = r.below(100);
            int64_t sz = r.chance(0.7) ? r.pick(sizes) : r.range(1, 300);
            if (r.chance(0.002)) sz = r.pick(std::vector<int64_t>{70000, 1 << 20}); // rare very large block
            if (k < 3) { op.kind = OP_FOREIGN; op.a = sz; }
            else if (k < 28) { op.kind = OP_ACQ; op.a = sz; }
            else if (k < 35) { op.kind = OP_CALLOC; op.a = r.pick(std::vector<int64_t>{1, 2, 4}); op.b = r.pick(std::vector<int64_t>{1, 8, 16, 32}); }
            else if (k < 55) { op.kind = OP_REALLOC; op.a = r.range(0, 1000); uint64_t m = r.below(10); op.b = m == 0 ? 0 : m < 3 ? -1 : (r.chance(0.6) ? r.pick(sizes) : r.range(1, 300)); }
            else if (k < 58) { op.kind = OP_REALLOC_NULL; op.a = sz; }
            else if (k < 80) { op.kind = OP_REL; op.a = r.range(0, 1000); }
            else if (k < 86 && nw > 1) { op.kind = OP_SEND; op.a = r.range(0, 1000); op.b = r.range(0, 3); }
            else if (k < 91 && nw > 1) { op.kind = OP_RECV; }
            else if (k < 95) { op.kind = OP_CHECKPOINT; op.a = r.chance(0.5); }
            else if (k < 97) { op.kind = OP_QUERY; }
            else if (k < 98) { op.kind = OP_DUMP; }
            else op.kind = OP_YIELD;
            p.ops.push_back(op);
        }
        if (nw > 1) { sim::Op rv; rv.thr = t; rv.kind = OP_RECV; p.ops.push_back(rv); }
    }
    if (r.chance(tier ? 0.06 : 0.03)) {
        // scale run: well over a thousand live allocations (the address table has to grow), then an exact check
        int t = (int)r.range(1, nw);
        sim::Op b; b.thr = t; b.kind = OP_BULK; b.a = r.range(1050, 1400); b.b = r.range(0, 100);
        if (p.get("backtrace_mode", 0) == 5 || r.chance(0.2)) { p.cfg["backtrace_mode"] = 5; b.a = r.range(4100, 5200); } // thousands of distinct call stacks
        p.ops.insert(p.ops.begin() + (long)r.below(p.ops.size() + 1), b);
        sim::Op cp; cp.thr = t; cp.kind = OP_CHECKPOINT; cp.a = 0;
        p.ops.push_back(cp);
        p.cfg["alloc_yield"] = 0;
        if (nw > 1 && p.get("backtrace_mode", 0) == 5) {
            // with thousands of stacks on record: every thread meets at a barrier, then allocates from fresh call stacks while the others
            // dump (a dump may land between the two halves of another thread's bookkeeping); the run ends with a dump of what is live
            for (int u = 1; u <= nw; u++) if (u != t) { sim::Op c2; c2.thr = u; c2.kind = OP_CHECKPOINT; c2.a = 0; p.ops.push_back(c2); }
            for (int k = 0; k < 3; k++)
                for (int u = 1; u <= nw; u++) {
                    sim::Op a; a.thr = u; a.kind = OP_ACQ; a.a = r.range(1, 64); p.ops.push_back(a);
                    sim::Op d; d.thr = u; d.kind = r.chance(0.6) ? OP_DUMP : OP_YIELD; p.ops.push_back(d);
                }
        }
    }
    // "same size" reallocs: b == -1 means keep the current size; resolved at run time (see below)
    p.cfg["soft_budget"] = 200000;
    p.cfg["hard_budget"] = 3000000;
}

std::string op_text(const sim::Op &op) {
    char b[160];
    switch (op.kind) {
        case OP_ACQ: snprintf(b, sizeof b, "T%d: acquire(%lld)", op.thr, (long long)op.a); break;
        case OP_CALLOC: snprintf(b, sizeof b, "T%d: calloc(%lld, %lld)", op.thr, (long long)op.a, (long long)op.b); break;
        case OP_REALLOC: snprintf(b, sizeof b, "T%d: realloc(own block #%lld mod n -> %lld bytes)", op.thr, (long long)op.a, (long long)op.b); break;
        case OP_REALLOC_NULL: snprintf(b, sizeof b, "T%d: realloc(NULL -> %lld bytes)", op.thr, (long long)op.a); break;
        case OP_REL: snprintf(b, sizeof b, "T%d: release(own block #%lld mod n)", op.thr, (long long)op.a); break;
        case OP_SEND: snprintf(b, sizeof b, "T%d: hand own block #%lld mod n to thread %lld mod n", op.thr, (long long)op.a, (long long)op.b); break;
        case OP_RECV: snprintf(b, sizeof b, "T%d: take over blocks handed to this thread", op.thr); break;
        case OP_CHECKPOINT: snprintf(b, sizeof b, "T%d: checkpoint (exact bytes/count check when all threads arrive%s)", op.thr, op.a ? ", then dump" : ""); break;
        case OP_YIELD: snprintf(b, sizeof b, "T%d: yield", op.thr); break;
        case OP_QUERY: snprintf(b, sizeof b, "T%d: aws_mem_tracer_bytes/count (concurrent, value not asserted)", op.thr); break;
        case OP_DUMP: snprintf(b, sizeof b, "T%d: aws_mem_tracer_dump (concurrent)", op.thr); break;
        case OP_FOREIGN: snprintf(b, sizeof b, "T%d: acquire(%lld) from the wrapped allocator directly (block unknown to the tracer)", op.thr, (long long)op.a); break;
        case OP_BULK: snprintf(b, sizeof b, "T%d: acquire %lld small blocks in a row and keep them", op.thr, (long long)op.a); break;
        default: snprintf(b, sizeof b, "?");
    }
    return b;
}

} // namespace

extern const Harness H_C17 = {
    "C17", "memory tracer's byte and allocation counts always equal what is live", gen, run, op_text,
    "Plans: tracer level NONE/BYTES/STACKS with 0-200 frames over a simulated allocator (immediate cross-thread address reuse, realloc moves "
    "or stays, optional vtable entries, preemption inside allocator calls), in 15% of the runs on a system whose high-resolution clock read fails; 1-4 threads x 4-100 operations of acquire / calloc / realloc (grow, "
    "shrink, same size, to 0, from NULL) / release, blocks obtained from the wrapped allocator behind the tracer's back and later resized or released through it, blocks handed to other threads, concurrent bytes/count queries and dumps, barrier "
    "checkpoints where bytes and count must equal the reference live set exactly and a dump must list exactly the live allocations. Distinct = "
    "sync-order fingerprint combined with plan, level and allocator behaviour; non-trivial = tracing on, at least 4 operations and "
    "(multi-threaded) a preemption on shared tracer state or (single-threaded) at least two exact checks.",
    "source/memtrace.c, hash_table.c, allocator.c, priority_queue.c, system_info backtrace, logging pipeline (foreground), posix/mutex.c (real)",
    "pthread mutex/create/join, clocks (simulated); wrapped aws_allocator (simulated); log writer (recording)"};
