// Harness interface: one per claimed property. A harness generates a plan from a seed and runs a plan
// against the real library under the simulator, checking its oracle as it goes (sim::violation).
#pragma once
#include "../sim/sim.h"
#include "../sim/sim_alloc.h"
#include <string>

struct RunInfo {
    sim::Stats st;
    bool nontrivial = false;   // by the harness' stated rule
    uint64_t case_fp = 0;      // fingerprint used for distinct counting (sync fingerprint or plan/fault fingerprint)
    uint64_t ops_done = 0;
};

struct Harness {
    const char *id;
    const char *title;
    // tier: 0 quick, 1 thorough. flavour: 0 = A (sync-level points), 1 = B (access-level points)
    void (*gen)(uint64_t seed, int tier, sim::Plan &out);
    RunInfo (*run)(const sim::Plan &plan);
    std::string (*op_text)(const sim::Op &op);
    const char *rule; // how cases are generated / what makes one non-trivial (evidence "rule")
    const char *real_components;
    const char *stubbed_components;
};

const Harness *find_harness(const char *id);
extern const Harness *const g_harnesses[];

// common helpers for plan generation -----------------------------------------------------------------
namespace hgen {
// draw simulator configuration (strategy, fault rates) swarm-style into plan.cfg
void sched_config(sim::Rng &r, sim::Plan &p, bool multi_threaded, bool allow_spurious, bool allow_stall, bool allow_clockjump,
                  int starve_tid);
}

// fill/verify patterns shared by the memory harnesses
// 64-bit immediates found in the library's own machine code (build.sh): values the code under test compares memory against
namespace hdict { size_t size(); uint64_t at(size_t i); }

namespace hx { void poison_errors(uint64_t seed, uint64_t n); } // stale errno / aws_last_error before a workload operation

namespace pat {
static inline uint8_t byte_at(uint64_t tag, size_t i) { return (uint8_t)(((tag * 0x9E3779B97F4A7C15ull) >> 56) ^ (uint8_t)(i * 131u + 7u)); }
static inline void fill(void *p, size_t n, uint64_t tag) { uint8_t *b = (uint8_t *)p; for (size_t i = 0; i < n; i++) b[i] = byte_at(tag, i); }
static inline long first_bad(const void *p, size_t n, uint64_t tag) { const uint8_t *b = (const uint8_t *)p; for (size_t i = 0; i < n; i++) if (b[i] != byte_at(tag, i)) return (long)i; return -1; }
}
