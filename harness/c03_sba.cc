// C03 — small-block allocator hands out disjoint, intact, fully accounted memory (DESIGN.md §5 C03)
#include "harness.h"
#include <errno.h>

#include <aws/common/allocator.h>
#include <aws/common/thread.h>
#include <aws/common/error.h>

#include <deque>
#include <vector>
#include <map>
#include <string.h>

namespace {

enum { OP_ACQ = 1, OP_CALLOC, OP_REALLOC, OP_REL, OP_SEND, OP_RECV, OP_CHECKPOINT, OP_YIELD, OP_REALLOC_NULL, OP_REL_BURST, OP_BULK, OP_REL_KEEP_ONE_PER_PAGE, OP_REL_PAGE, OP_QUERY };
static const size_t PAGE = 4096;
static const int MAXW = 4;

struct Block {
    uint8_t *p;
    size_t size;
    uint64_t tag;
    size_t cls; // size class fixed when the block was placed (0 = not a small block)
};

struct Worker {
    size_t last_mass_release = 0;
    std::vector<Block> own;
    std::vector<Block> mailbox;
    bool finished = false;
};

struct Ctx {
    const sim::Plan *plan;
    struct aws_allocator *parent;
    struct aws_allocator *sba;
    Worker w[MAXW + 1];
    int nworkers = 1;
    std::map<uintptr_t, Block> live; // by address: every live block (for the disjointness oracle)
    std::map<uintptr_t, size_t> page_class; // page base -> size class of the blocks seen in it (learned at placement)
    uint64_t next_tag = 1;
    uint64_t ops_done = 0, hist = 3;
    // checkpoint barrier
    int arrived = 0;
    uint64_t generation = 0;
    sim::Gate gate;
    int checkpoints = 0;
    uint64_t placed_cls_total = 0; // sum of the size classes of every small block ever placed (monotone)
};

size_t class_of(size_t n) {
    size_t c = 32;
    while (c < n) c <<= 1;
    return c;
}

bool in_sba_page(const void *p) {
    for (const auto &pg : sim::live_pages())
        if ((const uint8_t *)p >= (const uint8_t *)pg.p && (const uint8_t *)p < (const uint8_t *)pg.p + pg.size) return true;
    return false;
}

void check_new_block(Ctx &c, uint8_t *p, size_t size, const char *what) {
    if (!p) sim::violation("c03:null", "%s(%zu) returned NULL", what, size);
    if (((uintptr_t)p & 15) != 0) sim::violation("c03:alignment", "%s(%zu) returned a pointer that is not 16-byte aligned (offset %zu in its page)", what, size, (size_t)((uintptr_t)p & (PAGE - 1)));
    auto it = c.live.upper_bound((uintptr_t)p);
    if (it != c.live.begin()) {
        auto pr = std::prev(it);
        if (pr->first + pr->second.size > (uintptr_t)p)
            sim::violation("c03:overlap", "%s(%zu) returned memory overlapping a live block of %zu bytes (offset %zd into it)", what, size, pr->second.size,
                           (ptrdiff_t)((uintptr_t)p - pr->first));
    }
    if (it != c.live.end() && (uintptr_t)p + size > it->first)
        sim::violation("c03:overlap", "%s(%zu) returned memory overlapping the start of a live block of %zu bytes", what, size, it->second.size);
}

static const size_t EDGE = 4096; // blocks of 64 MiB and more are only patterned at their first and last 4 KiB
static inline bool is_vast(size_t n) { return n >= ((size_t)64 << 20); }
// One block in fifty carries a word from the dictionary of the library's own 64-bit immediates, repeated over its whole length: the
// contents of a live block are the caller's and may be any value, including one the allocator uses as a marker internally.
static const uint64_t DICT = (uint64_t)1 << 62;
// A block that is a recycled page handed out at the page's own address (contents as the previous owner left them): the application writes
// one dictionary word at its start and nothing else yet - the rest of the block still holds what was there before.
static const uint64_t SPARSE = (uint64_t)1 << 61;
static inline uint8_t dict_byte(uint64_t tag, size_t i) { uint64_t w = hdict::at((size_t)(tag & 0xFFFFFF)); return (uint8_t)(w >> (8 * (i & 7))); }
void fill_block(uint8_t *p, size_t n, uint64_t tag) {
    if (tag & SPARSE) { for (size_t i = 0; i < 8 && i < n; i++) p[i] = dict_byte(tag, i); return; }
    if (tag & DICT) { for (size_t i = 0; i < n; i++) p[i] = dict_byte(tag, i); return; }
    if (!is_vast(n)) { pat::fill(p, n, tag); return; }
    pat::fill(p, EDGE, tag);
    pat::fill(p + n - EDGE, EDGE, tag ^ 0x5555);
}
long first_bad_block(const uint8_t *p, size_t n, uint64_t tag) {
    if (tag & SPARSE) { for (size_t i = 0; i < 8 && i < n; i++) if (p[i] != dict_byte(tag, i)) return (long)i; return -1; }
    if (tag & DICT) { for (size_t i = 0; i < n; i++) if (p[i] != dict_byte(tag, i)) return (long)i; return -1; }
    if (!is_vast(n)) return pat::first_bad(p, n, tag);
    long b = pat::first_bad(p, EDGE, tag);
    if (b >= 0) return b;
    b = pat::first_bad(p + n - EDGE, EDGE, tag ^ 0x5555);
    return b >= 0 ? (long)(n - EDGE) + b : -1;
}

void verify(Ctx &c, const Block &b, const char *when) {
    long bad = first_bad_block(b.p, b.size, b.tag);
    if (bad >= 0)
        sim::violation("c03:clobbered", "%s: live block of %zu bytes (class %zu) was modified at offset %ld while it was live", when, b.size, b.cls, bad);
    (void)c;
}

Block place(Ctx &c, uint8_t *p, size_t size) {
    Block b;
    b.p = p; b.size = size; b.tag = c.next_tag++;
    if (size > 512 && size <= 4096 && ((uintptr_t)p & (PAGE - 1)) == 0 && c.plan->get("recycle_pages", 0) && hdict::size() && sim::mix64(b.tag, c.plan->seed) % 2 == 0) {
        b.tag |= SPARSE;
        sim::probe("first_word_of_a_recycled_page_block_set_to_a_dictionary_word_rest_untouched");
    } else
    if (size >= 8 && size <= 4096 && hdict::size() && sim::mix64(b.tag, c.plan->seed) % 50 == 0) { b.tag |= DICT; sim::probe("block_filled_with_a_word_from_the_librarys_own_immediates"); }
    if (size > 512 && in_sba_page(p))
        sim::violation("c03:size-class", "a request of %zu bytes (beyond the largest size class) was served from a small-block page: it is not writable for its whole size", size);
    b.cls = (size <= 512 && in_sba_page(p)) ? class_of(size) : 0;
    if (size <= 512 && !b.cls) sim::probe("small_request_outside_pages");
    if (b.cls) {
        uintptr_t pg = (uintptr_t)p & ~(uintptr_t)(PAGE - 1);
        auto it = c.page_class.find(pg);
        if (it != c.page_class.end() && it->second != b.cls && in_sba_page((void *)pg)) {
            // the same page cannot serve two size classes at once (a page that was returned and re-obtained may change class)
            bool other_live = false;
            for (auto &kv : c.live) if ((kv.first & ~(uintptr_t)(PAGE - 1)) == pg && kv.second.cls && kv.second.cls != b.cls) other_live = true;
            if (other_live) sim::violation("c03:page-class", "a page serves blocks of class %zu and class %zu at the same time", it->second, b.cls);
        }
        c.page_class[pg] = b.cls;
    }
    fill_block(p, size, b.tag);
    c.live[(uintptr_t)p] = b;
    c.placed_cls_total += b.cls;
    return b;
}

void quiescent_check(Ctx &c, const char *where) {
    // every thread is parked (or this is the only thread): the accounting must be exact
    size_t want_active = 0;
    for (auto &kv : c.live) {
        verify(c, kv.second, where);
        if (in_sba_page(kv.second.p)) {
            if (!kv.second.cls) sim::violation("c03:harness", "block in a page without a class");
            want_active += kv.second.cls;
        }
    }
    size_t active = aws_small_block_allocator_bytes_active(c.sba);
    size_t reserved = aws_small_block_allocator_bytes_reserved(c.sba);
    if (active != want_active)
        sim::violation("c03:bytes-active", "%s: bytes_active reports %zu, the live small blocks add up to %zu (%zu live blocks)", where, active, want_active, c.live.size());
    size_t pages = sim::live_pages().size();
    if (reserved != pages * PAGE)
        sim::violation("c03:bytes-reserved", "%s: bytes_reserved reports %zu, the allocator holds %zu page(s) = %zu bytes", where, reserved, pages, pages * PAGE);
    c.checkpoints++;
    simalloc::check_all(where);
}

void run_worker(Ctx &c, int idx) {
    Worker &w = c.w[idx];
    for (const sim::Op &op : c.plan->ops) {
        if (op.thr != idx) continue;
        if (c.plan->get("poison_errors", 0)) hx::poison_errors(c.plan->seed, sim::seq());
        sim::note(sim::PK_HARNESS, nullptr, op.kind);
        switch (op.kind) {
            case OP_ACQ: {
                size_t n = (size_t)op.a; if (!n) n = 1;
                uint8_t *p = (uint8_t *)aws_mem_acquire(c.sba, n);
                check_new_block(c, p, n, "acquire");
                w.own.push_back(place(c, p, n));
                c.ops_done++;
                break;
            }
            case OP_CALLOC: {
                size_t num = (size_t)op.a, sz = (size_t)op.b; if (!num) num = 1; if (!sz) sz = 1;
                uint8_t *p = (uint8_t *)aws_mem_calloc(c.sba, num, sz);
                check_new_block(c, p, num * sz, "calloc");
                for (size_t i = 0; i < num * sz; i++) if (p[i]) sim::violation("c03:calloc-dirty", "calloc(%zu,%zu): byte %zu is not zero", num, sz, i);
                w.own.push_back(place(c, p, num * sz));
                c.ops_done++;
                break;
            }
            case OP_REALLOC_NULL: {
                size_t n = (size_t)op.a; if (!n) n = 1;
                void *p = nullptr;
                if (aws_mem_realloc(c.sba, &p, 0, n)) sim::violation("c03:realloc", "realloc from NULL failed");
                check_new_block(c, (uint8_t *)p, n, "realloc(NULL)");
                w.own.push_back(place(c, (uint8_t *)p, n));
                c.ops_done++;
                break;
            }
            case OP_REALLOC: {
                if (w.own.empty()) break;
                size_t i = (size_t)op.a % w.own.size();
                Block b = w.own[i];
                size_t n = (size_t)op.b;
                if (is_vast(b.size)) break; // growing an address-space-only block through an allocator without mem_realloc would copy all of it
                verify(c, b, "before realloc");
                c.live.erase((uintptr_t)b.p); // during the call the old block may legitimately be given up
                void *p = b.p;
                bool crosses = (b.size <= 512) != (n <= 512 && n > 0);
                if (aws_mem_realloc(c.sba, &p, b.size, n)) sim::violation("c03:realloc", "realloc(%zu -> %zu) failed", b.size, n);
                c.ops_done++;
                if (n == 0) {
                    if (p) sim::violation("c03:realloc", "realloc to 0 did not reset the pointer");
                    w.own.erase(w.own.begin() + (long)i);
                    break;
                }
                if (crosses) sim::probe("realloc_across_small_large_boundary");
                size_t keep = b.size < n ? b.size : n;
                if (p != b.p) check_new_block(c, (uint8_t *)p, n, "realloc");
                else if (n > b.size) {
                    // grown in place: the extension must not run into a neighbour
                    check_new_block(c, (uint8_t *)p, n, "realloc(in place)");
                }
                long bad = (b.tag & (DICT | SPARSE)) ? first_bad_block((const uint8_t *)p, keep, b.tag)
                                          : is_vast(b.size) ? pat::first_bad(p, keep < EDGE ? keep : EDGE, b.tag) : pat::first_bad(p, keep, b.tag);
                if (bad >= 0) sim::violation("c03:realloc-lost", "realloc(%zu -> %zu): old contents not preserved at offset %ld", b.size, n, bad);
                Block nb;
                if (p == b.p) { nb = b; nb.size = n; nb.tag = c.next_tag++; fill_block(nb.p, n, nb.tag); if (nb.cls && n > nb.cls) sim::violation("c03:realloc", "block grown in place beyond its size class"); c.live[(uintptr_t)nb.p] = nb; }
                else nb = place(c, (uint8_t *)p, n);
                w.own[i] = nb;
                break;
            }
            case OP_REL: {
                if (w.own.empty()) break;
                size_t i = (size_t)op.a % w.own.size();
                Block b = w.own[i];
                verify(c, b, "before release");
                c.live.erase((uintptr_t)b.p);
                w.own.erase(w.own.begin() + (long)i);
                aws_mem_release(c.sba, b.p);
                c.ops_done++;
                break;
            }
            case OP_BULK: {
                // many live blocks of one class: more than 16 full pages per bin (the page list has to grow) and free lists
                // beyond their initial capacity
                size_t n = op.a < 0 ? w.last_mass_release : (size_t)op.a, sz = (size_t)op.b; if (!sz) sz = 1; // a < 0: as many as the last mass release freed
                for (size_t k = 0; k < n; k++) {
                    uint8_t *p = (uint8_t *)aws_mem_acquire(c.sba, sz);
                    check_new_block(c, p, sz, "acquire (bulk)");
                    w.own.push_back(place(c, p, sz));
                }
                c.ops_done += n;
                sim::probe("bulk_allocation_phase");
                if (sim::live_pages().size() > 17) sim::probe("more_than_17_pages_live");
                break;
            }
            case OP_REL_KEEP_ONE_PER_PAGE: {
                // release every small block except one per page: the free lists grow while every page stays in use
                std::map<uintptr_t, int> seen;
                std::vector<Block> keep;
                size_t freed = 0;
                for (auto &b : w.own) {
                    uintptr_t pg = (uintptr_t)b.p & ~(uintptr_t)(PAGE - 1);
                    if (!b.cls || seen[pg]++ == 0) { keep.push_back(b); continue; }
                    verify(c, b, "before release");
                    c.live.erase((uintptr_t)b.p);
                    aws_mem_release(c.sba, b.p);
                    freed++;
                }
                w.own.swap(keep);
                w.last_mass_release = freed;
                c.ops_done += freed;
                sim::probe("released_all_but_one_block_per_page");
                break;
            }
            case OP_REL_PAGE: {
                // release, back to back, every own block that lies in the same page as own block #a
                if (w.own.empty()) break;
                uintptr_t pg = (uintptr_t)w.own[(size_t)op.a % w.own.size()].p & ~(uintptr_t)(PAGE - 1);
                std::vector<Block> keep;
                for (auto &b : w.own) {
                    if (!b.cls || ((uintptr_t)b.p & ~(uintptr_t)(PAGE - 1)) != pg) { keep.push_back(b); continue; }
                    verify(c, b, "before release");
                    c.live.erase((uintptr_t)b.p);
                    aws_mem_release(c.sba, b.p);
                    c.ops_done++;
                }
                w.own.swap(keep);
                sim::probe("released_whole_page");
                break;
            }
            case OP_REL_BURST: {
                // release several blocks in a row, oldest first (empties whole pages while their other chunks sit on the free list)
                size_t n = (size_t)op.a;
                while (n-- && !w.own.empty()) {
                    Block b = w.own.front();
                    verify(c, b, "before release");
                    c.live.erase((uintptr_t)b.p);
                    w.own.erase(w.own.begin());
                    aws_mem_release(c.sba, b.p);
                    c.ops_done++;
                }
                break;
            }
            case OP_SEND: {
                if (w.own.empty() || c.nworkers < 2) break;
                size_t i = (size_t)op.a % w.own.size();
                int to = 1 + (int)((size_t)op.b % (size_t)c.nworkers);
                if (to == idx) to = 1 + (to % c.nworkers);
                c.w[to].mailbox.push_back(w.own[i]);
                w.own.erase(w.own.begin() + (long)i);
                sim::probe("block_handed_to_other_thread");
                break;
            }
            case OP_RECV:
                for (auto &b : w.mailbox) w.own.push_back(b);
                w.mailbox.clear();
                break;
            case OP_YIELD: sim::yield(); break;
            case OP_QUERY: {
                // bytes_active while other threads are working: whatever they are doing, the answer covers every small block that is live
                // before the call starts and is not released before it returns, and no more than those plus what came and went meanwhile.
                // (c.live holds exactly the blocks whose acquire has returned and whose release has not been invoked.)
                std::map<uintptr_t, uint64_t> snap;
                size_t live_start = 0;
                for (auto &kv : c.live) if (kv.second.cls) { snap[kv.first] = kv.second.tag; live_start += kv.second.cls; }
                uint64_t placed_start = c.placed_cls_total;
                sim::note(sim::PK_HARNESS, nullptr, 77);
                size_t got = aws_small_block_allocator_bytes_active(c.sba);
                size_t lower = 0;
                for (auto &kv : snap) { auto it = c.live.find(kv.first); if (it != c.live.end() && it->second.tag == kv.second) lower += it->second.cls; }
                size_t upper = live_start + (size_t)(c.placed_cls_total - placed_start) + 2 * (size_t)c.nworkers * 512;
                if (got < lower)
                    sim::violation("c03:bytes-active", "concurrent query: bytes_active reports %zu, but small blocks worth %zu bytes were live before the call and still are after it", got, lower);
                if (got > upper) sim::violation("c03:bytes-active", "concurrent query: bytes_active reports %zu, more than everything that was live or came to life during the call (%zu)", got, upper);
                sim::probe("bytes_active_queried_while_other_threads_work");
                c.ops_done++;
                break;
            }
            case OP_CHECKPOINT: {
                if (c.nworkers == 1) { quiescent_check(c, "checkpoint"); break; }
                uint64_t gen = c.generation;
                c.arrived++;
                int active = 0;
                for (int k = 1; k <= c.nworkers; k++) if (!c.w[k].finished) active++;
                if (c.arrived >= active) {
                    quiescent_check(c, "checkpoint (all threads parked)");
                    c.arrived = 0;
                    c.generation++;
                    c.gate.notify_all();
                } else {
                    c.gate.wait_until([&] { return c.generation != gen; });
                }
                break;
            }
        }
        if (c.nworkers == 1 && op.kind != OP_CHECKPOINT && (c.ops_done % 4) == 0) quiescent_check(c, "after operation (single thread)");
    }
    // finishing: a waiting barrier may now be complete
    w.finished = true;
    int active = 0;
    for (int k = 1; k <= c.nworkers; k++) if (!c.w[k].finished) active++;
    if (active > 0 && c.arrived >= active) {
        quiescent_check(c, "checkpoint (all remaining threads parked)");
        c.arrived = 0;
        c.generation++;
    }
    c.gate.notify_all();
}

struct WArg { Ctx *c; int idx; };
void worker_fn(void *a) { WArg *wa = (WArg *)a; run_worker(*wa->c, wa->idx); }

// ---------------------------------------------------------------- giga run (thorough tier only): gigabytes of live small blocks
// One size class holds more than 2^32 bytes of live blocks (8.4 million 512-byte blocks, 1.2 million pages, ~5 GiB resident), the
// accounting is compared with the model at checkpoints around the 32-bit boundaries, and everything is released again. The library
// finds an emptied page by scanning its page list from the front and then moves the list's last page into the hole; releasing
// page by page in exactly that order (first full page, then the one that took its slot, ...) keeps every scan at one step -
// any other order is quadratic and would take hours.
RunInfo run_giga(const sim::Plan &plan) {
    simalloc::Config ac;
    ac.seed = plan.seed;
    struct aws_allocator *parent = simalloc::create(ac);
    sim::begin(plan);
    bool mt = plan.get("multi_threaded", 0) != 0;
    struct aws_allocator *sba = aws_small_block_allocator_new(parent, mt);
    if (!sba) sim::violation("c03:new", "aws_small_block_allocator_new returned NULL");
    const size_t req = (size_t)plan.get("giga_size", 512), cls = class_of(req);
    const size_t n = (size_t)plan.get("giga_blocks", 0);
    const size_t per_page = (PAGE - 32) / cls; // chunks per page: the page header takes the first 32 bytes
    std::vector<uint8_t *> blocks;
    blocks.reserve(n);
    const uint64_t wrap = ((uint64_t)1 << 32) / cls; // this many live blocks make exactly 2^32 bytes
    auto check = [&](const char *where) {
        size_t active = aws_small_block_allocator_bytes_active(sba), want = blocks.size() * cls;
        if (active != want)
            sim::violation("c03:bytes-active", "%s: bytes_active reports %zu, the %zu live blocks of class %zu add up to %zu", where, active, blocks.size(), cls, want);
        size_t reserved = aws_small_block_allocator_bytes_reserved(sba), pages = sim::live_pages().size();
        if (reserved != pages * PAGE) sim::violation("c03:bytes-reserved", "%s: bytes_reserved reports %zu, the allocator holds %zu pages = %zu bytes", where, reserved, pages, pages * PAGE);
    };
    for (size_t i = 0; i < n; i++) {
        uint8_t *q = (uint8_t *)aws_mem_acquire(sba, req);
        if (!q) sim::violation("c03:null", "acquire(%zu) returned NULL", req);
        q[0] = (uint8_t)(i * 131 + 7);
        q[req - 1] = (uint8_t)(i * 31 + 1);
        blocks.push_back(q);
        uint64_t live = blocks.size();
        if (live % wrap == 0 || live % wrap == 1 || live % wrap == wrap - 1 || (live & 0xFFFFF) == 0) check("while acquiring");
    }
    if (blocks.size() * cls > ((uint64_t)1 << 32)) sim::probe("more_than_4GiB_live_in_one_size_class");
    check("everything acquired");
    {   // disjointness and page structure over all blocks
        std::vector<uint8_t *> sorted(blocks);
        std::sort(sorted.begin(), sorted.end());
        for (size_t i = 1; i < sorted.size(); i++)
            if ((size_t)(sorted[i] - sorted[i - 1]) < cls) sim::violation("c03:overlap", "two live blocks of class %zu are %zu bytes apart", cls, (size_t)(sorted[i] - sorted[i - 1]));
        for (size_t i = 0; i < blocks.size(); i++)
            if (blocks[i][0] != (uint8_t)(i * 131 + 7) || blocks[i][req - 1] != (uint8_t)(i * 31 + 1)) sim::violation("c03:clobbered", "live block %zu was modified", i);
    }
    // pages in the order they became full (= acquisition order on a fresh allocator); the last page may still be the working page
    size_t full_pages = blocks.size() / per_page;
    std::vector<size_t> order(full_pages); // model of the library's page list: page numbers
    for (size_t k = 0; k < full_pages; k++) order[k] = k;
    auto release_page = [&](size_t pg) {
        for (size_t j = 0; j < per_page; j++) { aws_mem_release(sba, blocks[pg * per_page + j]); blocks[pg * per_page + j] = nullptr; }
    };
    size_t live_now = blocks.size(), released = 0;
    while (!order.empty()) {
        size_t pg = order[0];
        release_page(pg);
        order[0] = order.back();
        order.pop_back();
        live_now -= per_page;
        if ((++released & 0x1FFFF) == 0) {
            size_t active = aws_small_block_allocator_bytes_active(sba);
            if (active != live_now * cls) sim::violation("c03:bytes-active", "while releasing: bytes_active reports %zu, %zu live blocks of class %zu add up to %zu", active, live_now, cls, live_now * cls);
        }
    }
    for (size_t i = full_pages * per_page; i < blocks.size(); i++) { aws_mem_release(sba, blocks[i]); live_now--; }
    if (aws_small_block_allocator_bytes_active(sba) != 0) sim::violation("c03:bytes-active", "everything released but bytes_active reports %zu", aws_small_block_allocator_bytes_active(sba));
    if (sim::live_pages().size() > 5) sim::violation("c03:pages-kept", "everything released but the allocator still holds %zu pages", sim::live_pages().size());
    aws_small_block_allocator_destroy(sba);
    if (!sim::live_pages().empty()) sim::violation("c03:destroy-leak", "destroy left %zu page(s) allocated", sim::live_pages().size());
    simalloc::expect_balanced("after destroy");
    RunInfo ri;
    ri.st = sim::end();
    ri.ops_done = 2 * n;
    ri.case_fp = sim::mix64(0x616761, n * 1024 + req);
    ri.nontrivial = true;
    return ri;
}

RunInfo run(const sim::Plan &plan) {
    if (plan.get("giga_blocks", 0) > 0) return run_giga(plan);
    simalloc::Config ac;
    ac.seed = plan.seed;
    ac.has_realloc = plan.get("alloc_realloc", 1) != 0;
    ac.has_calloc = plan.get("alloc_calloc", 1) != 0;
    ac.yield_points = plan.get("alloc_yield", 0) != 0;
    ac.carve_recycled = plan.get("recycle_pages", 0) != 0;
    Ctx c;
    c.plan = &plan;
    c.parent = simalloc::create(ac);
    bool mt = plan.get("multi_threaded", 1) != 0;
    c.nworkers = mt ? (int)plan.get("nworkers", 2) : 1;
    if (c.nworkers < 1) c.nworkers = 1;
    if (c.nworkers > MAXW) c.nworkers = MAXW;
    sim::begin(plan);
    if (plan.get("recycle_pages", 0)) sim::set_page_recycling(true);
    if (plan.get("prior_instance", 0)) {
        // an earlier allocator instance in the same process: used, emptied and destroyed. The memory it gave back may be
        // reused (contents intact) for pages of the allocator under test and for large blocks of its parent.
        struct aws_allocator *prior = aws_small_block_allocator_new(c.parent, mt);
        std::vector<void *> tmp;
        static const size_t ps[] = {32, 64, 128, 256, 512};
        int n = (int)plan.get("prior_instance", 0);
        for (int k = 0; k < n * 5; k++) tmp.push_back(aws_mem_acquire(prior, ps[k % 5]));
        for (void *q : tmp) aws_mem_release(prior, q);
        aws_small_block_allocator_destroy(prior);
        if (!sim::live_pages().empty()) sim::violation("c03:destroy-leak", "destroy of the earlier allocator instance left %zu page(s)", sim::live_pages().size());
        sim::probe("prior_allocator_instance_destroyed");
    }
    int mif = mt ? (int)plan.get("mutex_init_fail", 0) : 0; // the k-th bin mutex cannot be initialised: creation must fail cleanly, then succeed
    if (mif) {
        size_t live_before = simalloc::live_count();
        sim::set_mutex_init_fail(mif, (int)plan.get("mutex_init_errno", EAGAIN));
        struct aws_allocator *failed = aws_small_block_allocator_new(c.parent, true);
        sim::set_mutex_init_fail(0, 0);
        if (failed) sim::violation("c03:new", "aws_small_block_allocator_new succeeded although the mutex of bin %d could not be initialised", mif - 1);
        if (simalloc::live_count() != live_before)
            sim::violation("c03:new-leak", "failed aws_small_block_allocator_new (mutex of bin %d) left %zu block(s) of the parent allocator behind: %s", mif - 1,
                           simalloc::live_count() - live_before, simalloc::describe_live().c_str());
        if (!sim::live_pages().empty()) sim::violation("c03:new-leak", "failed aws_small_block_allocator_new left %zu page(s)", sim::live_pages().size());
        sim::probe("allocator_creation_failed_cleanly");
    }
    c.sba = aws_small_block_allocator_new(c.parent, mt);
    if (!c.sba) sim::violation("c03:new", "aws_small_block_allocator_new returned NULL");
    if (aws_small_block_allocator_bytes_active(c.sba) != 0) sim::violation("c03:bytes-active", "fresh allocator reports active bytes");
    if (c.nworkers == 1 && !plan.get("use_thread", 0)) {
        run_worker(c, 1);
    } else {
        struct aws_thread th[MAXW];
        WArg wa[MAXW];
        for (int i = 0; i < c.nworkers; i++) {
            wa[i] = WArg{&c, i + 1};
            aws_thread_init(&th[i], c.parent);
            if (aws_thread_launch(&th[i], worker_fn, &wa[i], nullptr)) sim::violation("c03:harness", "launch failed");
        }
        for (int i = 0; i < c.nworkers; i++) { aws_thread_join(&th[i]); aws_thread_clean_up(&th[i]); }
    }
    // quiescent: everything still live is checked, then released in a generated order
    quiescent_check(c, "after all threads finished");
    std::vector<Block> rest;
    for (int k = 1; k <= c.nworkers; k++) {
        for (auto &b : c.w[k].own) rest.push_back(b);
        for (auto &b : c.w[k].mailbox) rest.push_back(b);
    }
    sim::Rng r(sim::mix64(plan.seed, 0x4E57));
    while (!rest.empty()) {
        size_t i = r.below(rest.size());
        Block b = rest[i];
        rest.erase(rest.begin() + (long)i);
        verify(c, b, "final release");
        c.live.erase((uintptr_t)b.p);
        aws_mem_release(c.sba, b.p);
        for (auto &o : rest) verify(c, o, "after releasing another block");
    }
    if (aws_small_block_allocator_bytes_active(c.sba) != 0)
        sim::violation("c03:bytes-active", "everything released but bytes_active reports %zu", aws_small_block_allocator_bytes_active(c.sba));
    if (sim::live_pages().size() > 5)
        sim::violation("c03:pages-kept", "everything released but the allocator still holds %zu pages (more than one per size class)", sim::live_pages().size());
    {
        std::map<size_t, int> per_class;
        for (const auto &pg : sim::live_pages()) {
            auto it = c.page_class.find((uintptr_t)pg.p);
            if (it != c.page_class.end()) per_class[it->second]++;
        }
        for (auto &kv : per_class)
            if (kv.second > 1)
                sim::violation("c03:pages-kept", "everything released but the allocator still holds %d pages of the %zu-byte class (at most one working page per class)", kv.second, kv.first);
    }
    if (aws_small_block_allocator_bytes_reserved(c.sba) != sim::live_pages().size() * PAGE) sim::violation("c03:bytes-reserved", "bytes_reserved wrong after final release");
    // the allocator must still be usable: whatever it kept on its free lists has to be memory it still owns
    {
        static const size_t probe_sizes[] = {32, 64, 128, 256, 512};
        std::vector<Block> again;
        for (size_t ps : probe_sizes)
            for (int k = 0; k < 3; k++) {
                uint8_t *q = (uint8_t *)aws_mem_acquire(c.sba, ps);
                check_new_block(c, q, ps, "acquire after everything was released");
                again.push_back(place(c, q, ps));
            }
        quiescent_check(c, "re-use after everything was released");
        for (auto &b : again) { verify(c, b, "re-use"); c.live.erase((uintptr_t)b.p); aws_mem_release(c.sba, b.p); }
        if (aws_small_block_allocator_bytes_active(c.sba) != 0) sim::violation("c03:bytes-active", "bytes_active not zero after the re-use round");
        if (sim::live_pages().size() > 5) sim::violation("c03:pages-kept", "allocator holds %zu pages after the re-use round", sim::live_pages().size());
    }
    if (sim::pages_allocated_total() > 0 && sim::live_pages().size() < sim::pages_allocated_total()) sim::probe("page_returned_to_os");
    if (sim::pages_allocated_total() > 5) sim::probe("more_than_five_pages_used");
    aws_small_block_allocator_destroy(c.sba);
    if (!sim::live_pages().empty()) sim::violation("c03:destroy-leak", "destroy left %zu page(s) allocated", sim::live_pages().size());
    if (sim::mutex_held_any()) sim::violation("c03:lock-held", "a bin mutex is still locked");
    simalloc::expect_balanced("after destroy");
    RunInfo ri;
    ri.st = sim::end();
    ri.ops_done = c.ops_done;
    uint64_t h = ri.st.sync_fp;
    h = sim::mix64(h, c.hist + c.ops_done * 7 + sim::pages_allocated_total());
    for (const sim::Op &op : plan.ops) h = sim::mix64(h, (uint64_t)op.kind * 1000003ull + (uint64_t)op.a * 31 + (uint64_t)op.b + (uint64_t)op.thr * 7919);
    ri.case_fp = h;
    ri.nontrivial = c.ops_done >= 4 && (c.nworkers == 1 ? c.checkpoints >= 2 : (ri.st.shared_objs >= 1 && ri.st.preemptions >= 1));
    return ri;
}

void gen(uint64_t seed, int tier, sim::Plan &p) {
    sim::Rng r(sim::mix64(seed, 0xC03));
    p = sim::Plan();
    p.prop = "C03";
    p.seed = seed;
    bool mt = r.chance(0.75);
    if (tier == 1 && r.chance(0.000004)) {
        // giga plan (see run_giga): ~5 GiB resident, tens of seconds; a handful per thorough session
        hgen::sched_config(r, p, false, false, false, false, -1);
        p.cfg["multi_threaded"] = r.chance(0.3);
        int64_t size = r.pick(std::vector<int64_t>{512, 512, 300, 257});
        p.cfg["giga_size"] = size;
        p.cfg["giga_blocks"] = (((int64_t)1 << 32) / 512) + r.pick(std::vector<int64_t>{2, 100000, 700000});
        p.cfg["soft_budget"] = 0; p.cfg["hard_budget"] = 0;
        p.cfg["hang_scale"] = 10; // wall-clock watchdog allowance: 45 s on an idle machine
        return;
    }
    int nw = mt ? (int)r.range(1, 4) : 1;
    p.cfg["multi_threaded"] = mt;
    p.cfg["nworkers"] = nw;
    p.cfg["use_thread"] = r.chance(0.5);
    if (mt && r.chance(0.05)) { p.cfg["mutex_init_fail"] = r.range(1, 5); p.cfg["mutex_init_errno"] = r.pick(std::vector<int64_t>{EAGAIN, ENOMEM, EPERM}); }
    hgen::sched_config(r, p, nw > 1, false, true, false, -1);
    p.cfg["alloc_realloc"] = r.chance(0.8);
    p.cfg["alloc_calloc"] = r.chance(0.8);
    p.cfg["alloc_yield"] = r.chance(0.3);
    if (r.chance(0.3)) {
        p.cfg["recycle_pages"] = 1;
        p.cfg["prior_instance"] = r.range(0, 3);
    }
    static const std::vector<int64_t> sizes = {1, 8, 16, 31, 32, 33, 63, 64, 65, 127, 128, 129, 255, 256, 257, 511, 512, 513, 1024, 4096, 5000};
    int style = (int)r.below(4); // 0 mixed, 1 hammer one class (page crossing), 2 boundary sizes, 3 realloc heavy
    int64_t hammer = r.pick(std::vector<int64_t>{32, 64, 512, 17, 300});
    int maxops = tier ? 300 : 60;
    for (int t = 1; t <= nw; t++) {
        int n = (int)r.range(5, maxops);
        if (style == 1 && tier) n = (int)r.range(140, 300);
        if (style == 1 && !tier && r.chance(0.3)) n = (int)r.range(140, 200);
        for (int i = 0; i < n; i++) {
            sim::Op op;
            op.thr = t;
            uint64_t k = r.below(100);
            int64_t sz = style == 1 ? hammer : style == 2 ? r.pick(sizes) : (r.chance(0.6) ? r.pick(sizes) : r.range(1, 600));
            if (style != 1 && r.chance(0.002)) sz = r.pick(std::vector<int64_t>{65536, 300000, 1 << 20}); // rare very large (parent-served) block
            if (style != 1 && r.chance(0.001)) sz = ((int64_t)r.range(1, 3) << 32) + r.pick(std::vector<int64_t>{1, 32, 64, 100, 512, 513, 4096}); // beyond 4 GiB: address space only
            if (style == 1) {
                if (k < 70) { op.kind = OP_ACQ; op.a = sz; }
                else if (k < 90) { op.kind = OP_REL; op.a = r.range(0, 1000); }
                else if (k < 95) { op.kind = OP_REL_BURST; op.a = r.pick(std::vector<int64_t>{3, 7, 8, 20, 130}); }
                else { op.kind = OP_CHECKPOINT; }
            } else if (k < 30) { op.kind = OP_ACQ; op.a = sz; }
            else if (k < 38) { op.kind = OP_CALLOC; op.a = r.pick(std::vector<int64_t>{1, 2, 3, 8}); op.b = r.pick(std::vector<int64_t>{1, 8, 16, 32, 64, 100, 200}); }
            else if (k < (style == 3 ? 70 : 52)) { op.kind = OP_REALLOC; op.a = r.range(0, 1000); op.b = r.chance(0.08) ? 0 : (r.chance(0.6) ? r.pick(sizes) : r.range(1, 1200)); }
            else if (k < (style == 3 ? 72 : 55)) { op.kind = OP_REALLOC_NULL; op.a = sz; }
            else if (k < 78) { op.kind = OP_REL; op.a = r.range(0, 1000); }
            else if (k < 80) { op.kind = OP_REL_BURST; op.a = r.pick(std::vector<int64_t>{2, 7, 8, 20}); }
            else if (k < 87 && nw > 1) { op.kind = OP_SEND; op.a = r.range(0, 1000); op.b = r.range(0, 3); }
            else if (k < 93 && nw > 1) { op.kind = OP_RECV; }
            else if (k < 96) { op.kind = OP_CHECKPOINT; }
            else if (k < 98 && nw > 1) { op.kind = OP_QUERY; }
            else op.kind = OP_YIELD;
            p.ops.push_back(op);
        }
        if (nw > 1) { sim::Op rv; rv.thr = t; rv.kind = OP_RECV; p.ops.push_back(rv); }
    }
    if (r.chance(tier ? 0.06 : 0.03)) {
        // scale run: more than 16 full pages in one class, then bursts of releases and an exact check
        int t = (int)r.range(1, nw);
        sim::Op b; b.thr = t; b.kind = OP_BULK;
        if (r.chance(0.6)) { b.b = r.pick(std::vector<int64_t>{257, 400, 512}); b.a = r.range(125, 180); }
        else if (r.chance(0.5)) { b.b = r.pick(std::vector<int64_t>{129, 200, 256}); b.a = r.range(260, 330); }
        else { b.b = r.pick(std::vector<int64_t>{1, 20, 32}); b.a = r.range(2100, 2300); }
        p.ops.insert(p.ops.begin() + (long)r.below(p.ops.size() + 1), b);
        sim::Op cp; cp.thr = t; cp.kind = OP_CHECKPOINT; p.ops.push_back(cp);
        // page-structured phases after the bulk: thin every page out, refill, empty whole pages, bursts
        int phases = (int)r.range(2, 6);
        for (int ph = 0; ph < phases; ph++) {
            sim::Op o; o.thr = t;
            uint64_t w = r.below(10);
            if (w < 3) { o.kind = OP_REL_KEEP_ONE_PER_PAGE; }
            else if (w < 5) { o.kind = OP_BULK; o.a = -1; o.b = b.b; }
            else if (w < 8) { o.kind = OP_REL_PAGE; o.a = r.range(0, 5000); }
            else { o.kind = OP_REL_BURST; o.a = r.range(50, 400); }
            p.ops.push_back(o);
            if (r.chance(0.3)) { sim::Op c2; c2.thr = t; c2.kind = OP_CHECKPOINT; p.ops.push_back(c2); }
        }
        sim::Op cp2; cp2.thr = t; cp2.kind = OP_CHECKPOINT; p.ops.push_back(cp2);
        p.cfg["alloc_yield"] = 0;
    }
    p.cfg["soft_budget"] = 200000;
    p.cfg["hard_budget"] = 3000000;
}

std::string op_text(const sim::Op &op) {
    char b[160];
    switch (op.kind) {
        case OP_ACQ: snprintf(b, sizeof b, "T%d: acquire(%lld)", op.thr, (long long)op.a); break;
        case OP_CALLOC: snprintf(b, sizeof b, "T%d: calloc(%lld, %lld)", op.thr, (long long)op.a, (long long)op.b); break;
        case OP_REALLOC: snprintf(b, sizeof b, "T%d: realloc(own block #%lld mod n -> %lld bytes)", op.thr, (long long)op.a, (long long)op.b); break;
        case OP_REALLOC_NULL: snprintf(b, sizeof b, "T%d: realloc(NULL -> %lld bytes)", op.thr, (long long)op.a); break;
        case OP_REL: snprintf(b, sizeof b, "T%d: release(own block #%lld mod n)", op.thr, (long long)op.a); break;
        case OP_SEND: snprintf(b, sizeof b, "T%d: hand own block #%lld mod n to thread %lld mod n", op.thr, (long long)op.a, (long long)op.b); break;
        case OP_RECV: snprintf(b, sizeof b, "T%d: take over blocks handed to this thread", op.thr); break;
        case OP_CHECKPOINT: snprintf(b, sizeof b, "T%d: checkpoint (quiescent accounting check when all threads arrive)", op.thr); break;
        case OP_YIELD: snprintf(b, sizeof b, "T%d: yield", op.thr); break;
        case OP_QUERY: snprintf(b, sizeof b, "T%d: aws_small_block_allocator_bytes_active() while other threads work (bounded by what stays live / what is live or comes to life)", op.thr); break;
        case OP_REL_BURST: snprintf(b, sizeof b, "T%d: release the %lld oldest own blocks in a row", op.thr, (long long)op.a); break;
        case OP_BULK: snprintf(b, sizeof b, op.a < 0 ? "T%d: acquire as many blocks as the last mass release freed (%lld) of %lld bytes" : "T%d: acquire %lld blocks of %lld bytes in a row and keep them", op.thr, (long long)op.a, (long long)op.b); break;
        case OP_REL_KEEP_ONE_PER_PAGE: snprintf(b, sizeof b, "T%d: release every own small block except one per page", op.thr); break;
        case OP_REL_PAGE: snprintf(b, sizeof b, "T%d: release, back to back, every own block in the page of own block #%lld mod n", op.thr, (long long)op.a); break;
        default: snprintf(b, sizeof b, "?");
    }
    return b;
}

} // namespace

extern const Harness H_C03 = {
    "C03", "small-block allocator hands out disjoint, intact, fully accounted memory", gen, run, op_text,
    "Plans: allocator created multi-threaded (1-4 worker threads) or single-threaded; 5-300 operations per thread of acquire / calloc / "
    "realloc (grow, shrink, to 0, from NULL, across the 512-byte small/large boundary in both directions) / release with sizes biased to "
    "class boundaries {1,31,32,33,...,511,512,513,1024,4096,5000}, blocks handed to other threads and released there, runs that hammer one "
    "class to cross pages; the parent allocator is simulated (moves or not on realloc, junk fill, optional vtable entries, preemption inside "
    "calls); posix_memalign/free are interposed to count pages. Oracle: per-block fill patterns, interval map of live blocks, exact "
    "bytes_active/bytes_reserved at quiescent checkpoints (barrier), <=5 pages after the last release, nothing left after destroy. Distinct = "
    "sync-order fingerprint combined with the plan; non-trivial = at least 4 operations and (multi-threaded) shared bin mutex with a preemption "
    "or (single-threaded) at least two exact accounting checks.",
    "source/allocator_sba.c, allocator.c, array_list, posix/mutex.c, posix/thread.c (real)",
    "pthread mutex/create/join (simulated), parent aws_allocator (simulated), posix_memalign/free (observed, passed through)"};
