// C08 — thread scheduler delivers each task once, on its own thread, whatever the timing (DESIGN.md §5 C08)
#include "harness.h"

#include <aws/common/clock.h>
#include <aws/common/task_scheduler.h>
#include <aws/common/thread.h>
#include <aws/common/thread_scheduler.h>
#include <aws/common/error.h>
#include <aws/common/logging.h>

#include <deque>
#include <vector>
#include <errno.h>
#include <string.h>
#include <math.h>

namespace {

enum { OP_SCHED_NOW = 1, OP_SCHED_FUT, OP_CANCEL, OP_SLEEP, OP_YIELD, OP_BEHAV, OP_MAIN_SLEEP, OP_EXTRA_REF, OP_BULK_SCHED, OP_MEGA_SCHED, OP_BULK_REFS };
// OP_BULK_REFS (main only): a = count: that many extra references are acquired and then released again - none of these releases is the last one
// OP_MEGA_SCHED: a = count, b = first task, c = delay class (all timed, all due soon): hundreds of thousands of timers pending at once
enum { B_SCHED_NOW = 1, B_SCHED_FUT, B_SCHED_THEN_CANCEL, B_RESCHED_SELF, B_CANCEL_OTHER };
static const uint64_t FAR = 100000000000000000ull; // 1e17 ns (3 years): only the accelerated clock of a long fair tail gets there

struct Behav { int action; int64_t arg; int64_t arg2; };

struct TaskM {
    struct aws_task task;
    int id = 0;
    bool peer = false;          // bound to the second (peer) scheduler of the run
    bool sched_invoked = false, sched_returned = false; // current instance
    bool busy = false;          // an instance is scheduled and its function has not returned yet
    uint64_t instances = 0;     // instances scheduled so far
    uint64_t invoked_total = 0; // invocations so far (must end up equal to instances)
    uint64_t ret_boot = 0; // virtual time at which the schedule call of the current instance returned
    uint64_t time = 0; // 0 = run-now
    bool far = false;
    bool cancel_invoked = false;
    int invocations = 0;        // of the current instance
    int status = -1;
    int inv_thread = -1;
    uint64_t inv_boot = 0, inv_seq = 0;
    std::vector<Behav> on_run;
    int resched_left = 2;
};

struct Ctx {
    const sim::Plan *plan;
    struct aws_allocator *alloc;
    struct aws_thread_scheduler *ts = nullptr;
    std::deque<TaskM> tasks;
    int sched_tid = -1;
    // a second scheduler alive for the whole run: tasks bound to it are handed over by clients and by task functions running on the
    // first scheduler's thread; main releases it after everything else is over
    struct aws_thread_scheduler *peer = nullptr;
    int peer_tid = -1;
    bool peer_release_invoked = false, peer_final = false;
    uint64_t peer_final_seq = 0;
    int total_refs = 0, releases_invoked = 0, releases_returned = 0;
    bool destroy_may_have_started = false; // the number of invoked releases equals the number of references
    bool final_checked = false;
    uint64_t final_seq = 0;
    uint64_t ops_done = 0, invocations = 0, hist = 8;
    int nclients = 0;
    uint32_t client_ref_mask = 0;
    int extra_refs[4] = {0, 0, 0, 0}; // per thread (0 = main): additional references acquired and not yet released
    int64_t create_fail_err = 0;
    // an asynchronous logger: when the library logs on the scheduler thread, the logger may hand a (flush) task to the same scheduler
    bool in_logger = false, setup_done = false;
    int logger_budget = 0;
    size_t logger_rr = 0;
};
static Ctx *g = nullptr;

uint64_t delta_of(int cls) {
    static const uint64_t d[] = {0, 1, 1000, 1000000, 1000000000ull, 31000000000ull, 7200000000000ull, FAR};
    return d[cls % 8];
}

void do_schedule(Ctx &c, TaskM &t, bool now_kind, int cls) {
    if (t.busy) return;          // a task object carries one scheduled instance at a time; it may be re-used once that one is over
    t.busy = true;               // claimed before any decision point: no two threads may schedule the same task object
    if (t.instances) sim::probe("task_object_rescheduled");
    t.instances++;
    t.sched_invoked = true;
    t.sched_returned = false;
    t.cancel_invoked = false;
    t.invocations = 0;
    t.status = -1;
    uint64_t when = 0;
    if (!now_kind) {
        if (cls == 9) { // in the past
            uint64_t n = 0;
            aws_high_res_clock_get_ticks(&n);
            when = n > 1000000 ? n - 1000000 : 1;
        } else if (cls == 10) {
            when = UINT64_MAX; // parked for ever: never due; the inner scheduler reports this very value for "nothing scheduled" too
        } else if (cls == 8) {
            when = UINT64_MAX - 5; // does not fit a positive int64 delay: the scheduler thread polls
        } else {
            uint64_t n = 0;
            aws_high_res_clock_get_ticks(&n);
            when = n + delta_of(cls);
            if (when == 0) when = 1;
        }
    }
    t.time = when;
    t.far = (!now_kind && (cls == 7 || cls == 8 || cls == 10));
    if (!now_kind && cls == 10) sim::probe("task_parked_at_UINT64_MAX");
    uint64_t inst = t.instances;
    struct aws_thread_scheduler *ts = t.peer ? c.peer : c.ts;
    if (t.peer && sim::self() == c.sched_tid) sim::probe("task_handed_to_peer_scheduler_from_first_schedulers_thread");
    if (now_kind) aws_thread_scheduler_schedule_now(ts, &t.task);
    else aws_thread_scheduler_schedule_future(ts, &t.task, when);
    // The task may already have run - and the object been scheduled again by someone else - before this call returns (the caller
    // can be preempted after the hand-over): only the instance this call created may be marked.
    if (t.instances == inst) { t.sched_returned = true; t.ret_boot = sim::now_boot(); }
    c.ops_done++;
}

void do_cancel(Ctx &c, TaskM &t) {
    // legal only for a task that cannot have run: far-future, schedule call returned, not cancelled yet (DESIGN §5 C08)
    if (!t.sched_returned || !t.far || t.cancel_invoked || t.invocations) return;
    // deep in the fair tail the virtual clock accelerates and can get near FAR: keep half of FAR as a margin (tens of thousands of
    // fairly scheduled steps) between a cancel and the earliest moment its task could run
    if (sim::now_boot() + FAR / 2 >= t.time) return;
    t.cancel_invoked = true;
    aws_thread_scheduler_cancel_task(t.peer ? c.peer : c.ts, &t.task);
    c.ops_done++;
    sim::probe("cancel_issued");
}

void task_fn(struct aws_task *task, void *arg, enum aws_task_status status) {
    Ctx &c = *g;
    TaskM &t = *(TaskM *)arg;
    (void)task;
    c.invocations++;
    t.invocations++;
    t.invoked_total++;
    if (t.invocations > 1 || t.invoked_total > t.instances)
        sim::violation("c08:double-invoke", "task %d invoked twice: first %s on T%d, now %s on T%d", t.id, t.status == 0 ? "RUN" : "CANCELED", t.inv_thread,
                       status == AWS_TASK_STATUS_RUN_READY ? "RUN" : "CANCELED", sim::self());
    if (!t.sched_invoked) sim::violation("c08:phantom", "task %d invoked but never scheduled", t.id);
    t.status = status == AWS_TASK_STATUS_RUN_READY ? 0 : 1;
    t.inv_thread = sim::self();
    t.inv_boot = sim::now_boot();
    t.inv_seq = sim::seq();
    const int own_tid = t.peer ? c.peer_tid : c.sched_tid;
    c.hist = sim::mix64(c.hist, (uint64_t)t.id * 8 + (uint64_t)t.status * 4 + (uint64_t)(t.inv_thread == own_tid));
    sim::note(sim::PK_HARNESS, nullptr, 1000 + t.id * 2 + t.status);
    if (t.peer ? c.peer_final : c.final_checked) sim::violation("c08:invoked-after-release", "task %d invoked after the final release had returned", t.id);
    if (status == AWS_TASK_STATUS_RUN_READY) {
        if (sim::self() != own_tid)
            sim::violation("c08:wrong-thread", "task %d ran (RUN status) on T%d, its scheduler's thread is T%d", t.id, sim::self(), own_tid);
        if (t.time != 0 && sim::now_boot() < t.time)
            sim::violation("c08:ran-early", "task %d ran at virtual time %llu, before its time %llu", t.id, (unsigned long long)sim::now_boot(),
                           (unsigned long long)t.time);
        if (t.cancel_invoked) sim::violation("c08:ran-cancelled", "task %d ran although it was cancelled while it could not have run yet", t.id);
        if (t.far) sim::probe("far_future_task_ran_after_the_accelerated_tail_clock_passed_its_time"); // 'never before its time' is checked above
        for (const Behav &b : t.on_run) {
            TaskM &o = c.tasks[(size_t)b.arg % c.tasks.size()];
            if (&o == &t) continue;
            if (t.peer && !o.peer) continue; // the peer's thread holds no reference to the first scheduler, which may be gone by now
            switch (b.action) {
                case B_SCHED_NOW: if (!o.busy) { sim::probe("scheduled_from_task"); do_schedule(c, o, true, 0); } break;
                case B_SCHED_FUT: if (!o.busy) { sim::probe("scheduled_from_task"); do_schedule(c, o, false, (int)b.arg2); } break;
                case B_CANCEL_OTHER: // cancel, from the scheduler thread, a far-future task someone scheduled earlier
                    if (o.busy && o.far && o.sched_returned && !o.cancel_invoked) { sim::probe("cancel_from_task_function"); do_cancel(c, o); }
                    break;
                case B_SCHED_THEN_CANCEL:
                    if (!o.busy) { sim::probe("schedule_then_cancel_from_task"); do_schedule(c, o, false, 7); do_cancel(c, o); }
                    break;
            }
        }
    } else {
        if (!t.cancel_invoked && !(t.peer ? c.peer_release_invoked : c.destroy_may_have_started))
            sim::violation("c08:spurious-cancel", "task %d invoked with CANCELED status although it was not cancelled and the last reference is still held", t.id);
    }
    t.busy = false; // the function is done with the task object: it may be scheduled again
    if (status == AWS_TASK_STATUS_RUN_READY)
        for (const Behav &b : t.on_run)
            if (b.action == B_RESCHED_SELF && t.resched_left > 0 && !t.busy) {
                t.resched_left--;
                sim::probe("task_rescheduled_itself");
                do_schedule(c, t, b.arg2 == 0, (int)b.arg2);
            }
}

int ts_log(struct aws_logger *, enum aws_log_level, aws_log_subject_t, const char *, ...) {
    Ctx *c = g;
    if (!c || !sim::active() || !c->setup_done || c->in_logger || c->logger_budget <= 0 || sim::self() != c->sched_tid) return AWS_OP_SUCCESS;
    c->in_logger = true;
    for (size_t k = 0; k < c->tasks.size(); k++) {
        TaskM &t = c->tasks[(c->logger_rr + k) % c->tasks.size()];
        if (t.busy || t.peer) continue;
        c->logger_rr += k + 1;
        c->logger_budget--;
        sim::probe("logger_scheduled_a_task_from_a_log_call_on_the_scheduler_thread");
        do_schedule(*c, t, true, 0);
        break;
    }
    c->in_logger = false;
    return AWS_OP_SUCCESS;
}
enum aws_log_level ts_level(struct aws_logger *, aws_log_subject_t) { return AWS_LL_TRACE; }
void ts_clean_up(struct aws_logger *) {}
int ts_set_level(struct aws_logger *, enum aws_log_level) { return AWS_OP_SUCCESS; }
struct aws_logger_vtable g_ts_vtable = {ts_log, ts_level, ts_clean_up, ts_set_level};
struct aws_logger g_ts_logger = {&g_ts_vtable, nullptr, nullptr};

void final_checks(Ctx &c, const char *who) {
    // every release call has returned: the one that dropped the last reference has therefore returned as well
    c.final_checked = true;
    c.final_seq = sim::seq();
    if (c.sched_tid >= 0 && !sim::thread_done(c.sched_tid))
        sim::violation("c08:thread-alive", "%s: final release returned but the scheduler thread T%d has not exited", who, c.sched_tid);
    for (auto &t : c.tasks) {
        if (t.peer) continue; // checked when the peer scheduler is released
        if (t.invoked_total != t.instances) {
            sim::violation("c08:lost-task",
                           "task %d (%s%s) was scheduled (call returned: %s) but never invoked although the final release has returned", t.id,
                           t.time == 0 ? "run-now" : "timed", t.cancel_invoked ? ", cancelled" : "", t.sched_returned ? "yes" : "no");
        }
        if (t.cancel_invoked && t.status != 1) sim::violation("c08:cancel-ignored", "cancelled task %d was not invoked with CANCELED status", t.id);
    }
}

void do_release(Ctx &c, const char *who) {
    c.releases_invoked++;
    if (c.releases_invoked == c.total_refs) {
        c.destroy_may_have_started = true;
        int pending = 0;
        for (auto &t : c.tasks) if (!t.peer && t.invoked_total != t.instances) pending++;
        if (pending) sim::probe("final_release_with_pending_tasks");
        // Bounded liveness, fault-free runs only (no stalls, spurious wake-ups or clock steps; not in the accelerated tail): a task that
        // was due when its schedule call returned is invoked within 45 virtual seconds - virtual time only passes that fast when every
        // thread is blocked, and the scheduler thread never waits longer than its 30 s idle period while something is due.
        if (c.plan->get("faults", 0) == 0 && sim::steps() < (uint64_t)c.plan->get("soft_budget", 60000)) {
            uint64_t now = sim::now_boot();
            for (auto &t : c.tasks)
                if (!t.peer && t.busy && t.sched_returned && t.invocations == 0 && !t.cancel_invoked && (t.time == 0 || t.time <= t.ret_boot) && now > t.ret_boot &&
                    now - t.ret_boot >= 45000000000ull)
                    sim::violation("c08:stuck-task", "task %d (%s) was due when its schedule call returned %.1f virtual seconds ago, the scheduler is alive and idle, and it has still not been invoked", t.id,
                                   t.time == 0 ? "run-now" : "timed, already due", (double)(now - t.ret_boot) / 1e9);
            sim::probe("liveness_oracle_evaluated");
        }
    }
    sim::note(sim::PK_HARNESS, nullptr, 900);
    uint64_t b0 = sim::now_boot();
    aws_thread_scheduler_release(c.ts);
    c.releases_returned++;
    if (c.releases_returned == c.total_refs) {
        uint64_t lat = sim::now_boot() - b0;
        if (lat > 1000000000ull) sim::probe("final_release_latency_over_1s_virtual");
        if (lat > 29000000000ull) sim::probe("final_release_waited_for_idle_wakeup");
        if (lat > 3600000000000ull) sim::probe("final_release_blocked_over_1h_virtual_until_next_task_time");
        final_checks(c, who);
    }
}

struct ClientArg { Ctx *c; int idx; };

void client_fn(void *arg) {
    ClientArg *ca = (ClientArg *)arg;
    Ctx &c = *ca->c;
    for (const sim::Op &op : c.plan->ops) {
        if (op.thr != ca->idx) continue;
        if (c.plan->get("poison_errors", 0)) hx::poison_errors(c.plan->seed, sim::seq());
        switch (op.kind) {
            case OP_SCHED_NOW: do_schedule(c, c.tasks[(size_t)op.a % c.tasks.size()], true, 0); break;
            case OP_SCHED_FUT: do_schedule(c, c.tasks[(size_t)op.a % c.tasks.size()], false, (int)op.b); break;
            case OP_CANCEL: do_cancel(c, c.tasks[(size_t)op.a % c.tasks.size()]); break;
            case OP_SLEEP: sim::sleep_ns((uint64_t)op.a); break;
            case OP_YIELD: sim::yield(); break;
            case OP_BULK_SCHED: // many tasks handed over in a row (long hand-over queue, timed queue growth)
                for (int64_t k = 0; k < op.a; k++) {
                    TaskM &t = c.tasks[(size_t)(op.b + k) % c.tasks.size()];
                    do_schedule(c, t, (k % 3) == 0, (int)((op.c + k) % 8));
                }
                sim::probe("bulk_schedule");
                break;
            case OP_MEGA_SCHED: {
                size_t n = (size_t)op.a > c.tasks.size() ? c.tasks.size() : (size_t)op.a;
                for (size_t k = 0; k < n; k++) do_schedule(c, c.tasks[((size_t)op.b + k) % c.tasks.size()], false, (int)(op.c % 5));
                sim::probe(n > 458752 ? "mega_schedule_over_458752_timers" : n > 100000 ? "mega_schedule_over_100000_timers" : "mega_schedule");
                break;
            }
            case OP_EXTRA_REF:
                if (c.client_ref_mask & (1u << ca->idx)) { // only while holding a reference of its own
                    c.total_refs++;
                    c.extra_refs[ca->idx]++;
                    aws_thread_scheduler_acquire(c.ts);
                    sim::probe("extra_reference_acquired");
                }
                break;
        }
    }
    while (c.extra_refs[ca->idx] > 0) { c.extra_refs[ca->idx]--; do_release(c, "client (extra reference)"); }
    if (c.client_ref_mask & (1u << ca->idx)) do_release(c, "client");
}

RunInfo run(const sim::Plan &plan) {
    simalloc::Config ac;
    ac.seed = plan.seed;
    ac.has_realloc = plan.get("alloc_realloc", 1) != 0;
    ac.has_calloc = plan.get("alloc_calloc", 1) != 0;
    ac.yield_points = plan.get("alloc_yield", 0) != 0;
    Ctx c;
    g = &c;
    c.plan = &plan;
    c.alloc = simalloc::create(ac);
    int nt = (int)plan.get("ntasks", 6);
    if (nt < 1) nt = 1;
    c.tasks.resize((size_t)nt);
    for (int i = 0; i < nt; i++) {
        c.tasks[(size_t)i].id = i;
        aws_task_init(&c.tasks[(size_t)i].task, task_fn, &c.tasks[(size_t)i], "dsim");
    }
    int npeer = (int)plan.get("peer_tasks", 0);
    if (npeer > nt) npeer = nt;
    for (int i = nt - npeer; i < nt; i++) c.tasks[(size_t)i].peer = true;
    for (const sim::Op &op : plan.ops)
        if (op.kind == OP_BEHAV) c.tasks[(size_t)op.a % c.tasks.size()].on_run.push_back(Behav{(int)op.c, op.d, op.b});
    c.nclients = (int)plan.get("nclients", 1);
    if (c.nclients < 0) c.nclients = 0;
    if (c.nclients > 3) c.nclients = 3;
    c.client_ref_mask = (uint32_t)plan.get("client_ref_mask", 0);
    int main_release_mode = (int)plan.get("main_release_mode", 0);

    sim::begin(plan);
    c.logger_budget = (int)plan.get("logger_tasks", 0);
    aws_logger_set(c.logger_budget > 0 ? &g_ts_logger : nullptr);
    double pf = (double)plan.get("p_pushfail", 0) / 1000000.0;
    if (pf > 0) sim::set_pushref_mode(1, pf);
    struct aws_thread_options opts = *aws_default_thread_options();
    const struct aws_thread_options *po = nullptr;
    int om = (int)plan.get("thread_opts", 0);
    if (om >= 1) { opts.name = aws_byte_cursor_from_c_str("dsim-sched"); po = &opts; }
    if (om == 2) opts.cpu_id = 1;
    int cf = (int)plan.get("create_fail", 0);
    if (cf) sim::set_create_fail(1, cf);
    c.sched_tid = sim::thread_count();
    c.ts = aws_thread_scheduler_new(c.alloc, po);
    bool expect_null = cf != 0 && om != 2; // with a cpu_id the library retries once without pinning
    if (!c.ts) {
        if (!expect_null) sim::violation("c08:ctor", "aws_thread_scheduler_new returned NULL without an injected failure that explains it");
        simalloc::expect_balanced("after failed constructor");
        RunInfo ri;
        ri.st = sim::end();
        ri.case_fp = sim::mix64(88, (uint64_t)cf);
        g = nullptr;
        return ri;
    }
    if (expect_null) sim::violation("c08:ctor", "thread creation failed (errno %d) but the constructor returned a scheduler", cf);
    if (cf && om == 2) sim::probe("ctor_retried_without_cpu_pin");

    if (npeer > 0) {
        c.peer_tid = sim::thread_count();
        c.peer = aws_thread_scheduler_new(c.alloc, nullptr);
        if (!c.peer) sim::violation("c08:ctor", "second aws_thread_scheduler_new returned NULL without an injected failure");
        sim::probe("two_schedulers_alive");
    }
    c.setup_done = true; // both schedulers exist: task functions (and the logger) may use them
    c.total_refs = 1;
    struct aws_thread cth[3];
    ClientArg cargs[3];
    for (int i = 0; i < c.nclients; i++) {
        int idx = i + 1;
        if (c.client_ref_mask & (1u << idx)) { aws_thread_scheduler_acquire(c.ts); c.total_refs++; }
    }
    for (int i = 0; i < c.nclients; i++) {
        cargs[i] = ClientArg{&c, i + 1};
        aws_thread_init(&cth[i], c.alloc);
        if (aws_thread_launch(&cth[i], client_fn, &cargs[i], nullptr)) sim::violation("c08:harness", "client launch failed");
    }
    bool all_clients_have_refs = true;
    for (int i = 0; i < c.nclients; i++) if (!(c.client_ref_mask & (1u << (i + 1)))) all_clients_have_refs = false;
    bool main_released = false;
    // main-thread ops (thr 0) run before its release
    auto run_main_ops = [&]() {
        for (const sim::Op &op : plan.ops) {
            if (op.thr != 0) continue;
            if (plan.get("poison_errors", 0)) hx::poison_errors(plan.seed, sim::seq());
            switch (op.kind) {
                case OP_SCHED_NOW: do_schedule(c, c.tasks[(size_t)op.a % c.tasks.size()], true, 0); break;
                case OP_SCHED_FUT: do_schedule(c, c.tasks[(size_t)op.a % c.tasks.size()], false, (int)op.b); break;
                case OP_CANCEL: do_cancel(c, c.tasks[(size_t)op.a % c.tasks.size()]); break;
                case OP_SLEEP: case OP_MAIN_SLEEP: sim::sleep_ns((uint64_t)op.a); break;
                case OP_YIELD: sim::yield(); break;
                case OP_EXTRA_REF:
                    c.total_refs++;
                    c.extra_refs[0]++;
                    aws_thread_scheduler_acquire(c.ts);
                    sim::probe("extra_reference_acquired");
                    break;
                case OP_BULK_REFS: {
                    // the reference counter is a size_t: billions of references are legal. Main keeps its own reference throughout, so the
                    // scheduler must stay alive (thread running, nothing cancelled) whatever the counter passes on the way up and down.
                    uint64_t n = (uint64_t)op.a;
                    for (uint64_t k = 0; k < n; k++) aws_thread_scheduler_acquire(c.ts);
                    sim::probe(n > ((uint64_t)1 << 32) ? "more_than_2_to_32_references_held" : "bulk_references_held");
                    for (uint64_t k = 0; k < n; k++) {
                        aws_thread_scheduler_release(c.ts);
                        if ((k & 0xFFFFFFF) == 0 && sim::thread_done(c.sched_tid))
                            sim::violation("c08:thread-exited-early", "the scheduler thread exited although %llu references are still held", (unsigned long long)(n - k));
                    }
                    if (sim::thread_done(c.sched_tid)) sim::violation("c08:thread-exited-early", "the scheduler thread exited although main still holds its reference");
                    break;
                }
            }
        }
        while (c.extra_refs[0] > 0) { c.extra_refs[0]--; do_release(c, "main (extra reference)"); }
    };
    if (main_release_mode == 1 && all_clients_have_refs) {
        run_main_ops();
        do_release(c, "main");
        main_released = true;
    }
    // clients without their own reference rely on main's: join them before main releases
    if (!main_released)
        for (int i = 0; i < c.nclients; i++)
            if (!(c.client_ref_mask & (1u << (i + 1)))) aws_thread_join(&cth[i]);
    if (!main_released) {
        run_main_ops();
        do_release(c, "main");
    }
    for (int i = 0; i < c.nclients; i++) { aws_thread_join(&cth[i]); aws_thread_clean_up(&cth[i]); }
    if (!c.final_checked) sim::violation("c08:harness", "not every release returned");
    if (c.peer) {
        // the first scheduler and all clients are gone: release the peer; everything handed to it must have been or now be invoked
        if (plan.get("peer_linger", 0)) sim::sleep_ns((uint64_t)plan.get("peer_linger", 0));
        c.peer_release_invoked = true;
        aws_thread_scheduler_release(c.peer);
        c.peer_final = true;
        c.peer_final_seq = sim::seq();
        if (!sim::thread_done(c.peer_tid)) sim::violation("c08:thread-alive", "release of the peer scheduler returned but its thread T%d has not exited", c.peer_tid);
        for (auto &t : c.tasks) {
            if (!t.peer) continue;
            if (t.invoked_total != t.instances)
                sim::violation("c08:lost-task", "task %d (peer scheduler, %s%s) was scheduled (call returned: %s) but never invoked although the release has returned", t.id,
                               t.time == 0 ? "run-now" : "timed", t.cancel_invoked ? ", cancelled" : "", t.sched_returned ? "yes" : "no");
            if (t.cancel_invoked && t.status != 1) sim::violation("c08:cancel-ignored", "cancelled task %d was not invoked with CANCELED status", t.id);
        }
    }
    // grace period: nothing may be invoked after the final release returned
    sim::sleep_ns(60000000000ull);
    for (auto &t : c.tasks)
        if (t.invocations && t.inv_seq > (t.peer ? c.peer_final_seq : c.final_seq)) sim::violation("c08:invoked-after-release", "task %d was invoked after the final release returned", t.id);
    if (sim::mutex_held_any()) sim::violation("c08:lock-held", "a mutex is still locked at the end of the run");
    aws_logger_set(nullptr);
    simalloc::expect_balanced("after final release");
    RunInfo ri;
    ri.st = sim::end();
    ri.ops_done = c.ops_done;
    ri.case_fp = sim::mix64(ri.st.sync_fp, c.hist);
    ri.nontrivial = ri.st.shared_objs >= 1 && ri.st.preemptions >= 1 && c.invocations >= 1;
    g = nullptr;
    return ri;
}

void gen(uint64_t seed, int tier, sim::Plan &p) {
    sim::Rng r(sim::mix64(seed, 0xC08));
    p = sim::Plan();
    p.prop = "C08";
    p.seed = seed;
    int nclients = (int)r.range(1, 3);
    if (r.chance(0.05)) nclients = 0;
    hgen::sched_config(r, p, true, true, true, true, 1 /* the scheduler thread is the first thread created */);
    p.cfg["nclients"] = nclients;
    int nt = (int)r.range(1, tier ? 30 : 14);
    if (r.chance(0.3)) nt = (int)r.range(1, 4);
    p.cfg["ntasks"] = nt;
    uint32_t mask = 0;
    for (int i = 1; i <= nclients; i++) if (r.chance(0.5)) mask |= 1u << i;
    p.cfg["client_ref_mask"] = mask;
    p.cfg["main_release_mode"] = r.chance(0.5) ? 1 : 0;
    p.cfg["thread_opts"] = (int64_t)r.below(3);
    p.cfg["alloc_realloc"] = r.chance(0.8);
    p.cfg["alloc_calloc"] = r.chance(0.8);
    p.cfg["alloc_yield"] = r.chance(0.3);
    if (r.chance(0.04)) p.cfg["create_fail"] = r.pick(std::vector<int64_t>{EAGAIN, ENOMEM, EPERM, EINVAL});
    if (p.get("faults") && r.chance(0.3)) p.cfg["p_pushfail"] = r.pick(std::vector<int64_t>{100000, 500000, 1000000});
    bool allow_max = r.chance(0.03);
    bool allow_parked = r.chance(0.1);
    bool scale = nclients > 0 && r.chance(tier ? 0.03 : 0.015);
    if (scale) { nt = (int)r.range(100, 250); p.cfg["ntasks"] = nt; }
    if (r.chance(0.2)) p.cfg["logger_tasks"] = r.range(1, 8); // a logger that schedules tasks from log calls made on the scheduler thread
    // a quarter of the plans run a second scheduler next to the first; the last tasks of the pool belong to it
    if (nt >= 2 && r.chance(0.25)) {
        p.cfg["peer_tasks"] = r.range(1, nt / 2);
        if (r.chance(0.3)) p.cfg["peer_linger"] = r.pick(std::vector<int64_t>{1000000, 1000000000ll, 40000000000ll});
    }
    // task behaviours
    int nb = r.chance(0.5) ? (int)r.range(0, nt) : 0;
    for (int i = 0; i < nb; i++) {
        sim::Op b;
        b.thr = -1; b.kind = OP_BEHAV;
        b.a = r.range(0, nt - 1);
        b.c = r.range(1, 5);
        b.d = r.range(0, nt - 1);
        b.b = r.pick(std::vector<int64_t>{0, 1, 2, 3, 4, 7});
        p.ops.push_back(b);
    }
    int maxops = tier ? 40 : 16;
    for (int cl = 0; cl <= nclients; cl++) {
        int nops = cl == 0 ? (int)r.range(0, 4) : (int)r.range(1, maxops);
        if (r.chance(0.3)) nops = (int)r.range(1, 3);
        for (int i = 0; i < nops; i++) {
            sim::Op op;
            op.thr = cl;
            uint64_t k = r.below(100);
            if (k < 30) { op.kind = OP_SCHED_NOW; op.a = r.range(0, nt - 1); }
            else if (k < 65) {
                op.kind = OP_SCHED_FUT; op.a = r.range(0, nt - 1);
                op.b = r.pick(std::vector<int64_t>{0, 1, 2, 3, 3, 4, 5, 6, 7, 7, 7, 9});
                if (allow_max && r.chance(0.2)) op.b = 8;
                if (allow_parked && r.chance(0.2)) op.b = 10;
            } else if (k < 80) { op.kind = OP_CANCEL; op.a = r.range(0, nt - 1); }
            else if (k < 83) { op.kind = OP_EXTRA_REF; }
            else if (k < 92) { op.kind = OP_SLEEP; op.a = r.pick(std::vector<int64_t>{1, 1000, 1000000, 1000000000ll, 31000000000ll, 40000000000ll}); }
            else op.kind = OP_YIELD;
            p.ops.push_back(op);
        }
    }
    if (scale) {
        sim::Op b; b.thr = (int)r.range(1, nclients); b.kind = OP_BULK_SCHED; b.a = r.range(60, nt); b.b = r.range(0, nt - 1); b.c = r.range(0, 7);
        p.ops.insert(p.ops.begin() + (long)r.below(p.ops.size() + 1), b);
    }
    p.cfg["soft_budget"] = 60000;
    p.cfg["hard_budget"] = 3000000;
    if (nclients > 0 && r.chance(tier ? 0.0008 : 0.0004)) {
        // mega plan: one parked task, then 20 000 - 1 000 000 timers pending at once (the timed queue's storage passes every growth step up to
        // tens of MiB), all due within a second; afterwards main lingers so that the scheduler thread goes through its idle path
        double e = (double)r.range(0, 1000) / 1000.0;
        int64_t n = (int64_t)(20000.0 * pow(50.0, e));
        p.ops.clear();
        p.cfg.erase("peer_tasks"); p.cfg.erase("peer_linger"); p.cfg.erase("create_fail"); p.cfg.erase("p_pushfail");
        p.cfg["ntasks"] = n + 1;
        p.cfg["nclients"] = 1;
        p.cfg["client_ref_mask"] = 0;
        p.cfg["main_release_mode"] = 0;
        p.cfg["strat"] = 1;
        p.cfg["p_switch"] = r.pick(std::vector<int64_t>{200, 1000, 5000});
        p.cfg["alloc_yield"] = 0;
        p.cfg["faults"] = 0; p.cfg.erase("p_spurious"); p.cfg.erase("p_stall"); p.cfg.erase("p_clockjump");
        sim::Op park; park.thr = 1; park.kind = OP_SCHED_FUT; park.a = 0; park.b = 10;
        if (r.chance(0.7)) p.ops.push_back(park);
        sim::Op m; m.thr = 1; m.kind = OP_MEGA_SCHED; m.a = n; m.b = 1; m.c = r.range(2, 4);
        p.ops.push_back(m);
        sim::Op sl; sl.thr = 0; sl.kind = OP_MAIN_SLEEP; sl.a = r.pick(std::vector<int64_t>{2000000000ll, 45000000000ll, 100000000000ll});
        p.ops.push_back(sl);
        p.cfg["hang_scale"] = 5;
        p.cfg["soft_budget"] = 12 * n + 200000;
        p.cfg["hard_budget"] = 40 * n + 3000000;
    }
}

std::string op_text(const sim::Op &op) {
    char b[160];
    static const char *dc[] = {"now+0", "now+1ns", "now+1us", "now+1ms", "now+1s", "now+31s", "now+2h", "now+FAR(1e17ns)", "UINT64_MAX-5", "now-1ms", "UINT64_MAX (parked)"};
    static const char *ba[] = {"?", "schedule_now", "schedule_future", "schedule_future(FAR) then cancel", "re-schedule itself", "cancel (if far-future and pending)"};
    const char *who = op.thr == 0 ? "main" : "client";
    switch (op.kind) {
        case OP_SCHED_NOW: snprintf(b, sizeof b, "%s%d: schedule_now(task %lld)", who, op.thr, (long long)op.a); break;
        case OP_SCHED_FUT: snprintf(b, sizeof b, "%s%d: schedule_future(task %lld, %s)", who, op.thr, (long long)op.a, dc[op.b % 11]); break;
        case OP_CANCEL: snprintf(b, sizeof b, "%s%d: cancel(task %lld) [only if far-future and its schedule call has returned]", who, op.thr, (long long)op.a); break;
        case OP_SLEEP: case OP_MAIN_SLEEP: snprintf(b, sizeof b, "%s%d: sleep(%lld ns virtual)", who, op.thr, (long long)op.a); break;
        case OP_YIELD: snprintf(b, sizeof b, "%s%d: yield", who, op.thr); break;
        case OP_BULK_SCHED: snprintf(b, sizeof b, "%s%d: schedule %lld tasks in a row (from task %lld, mixed now/future)", who, op.thr, (long long)op.a, (long long)op.b); break;
        case OP_MEGA_SCHED: snprintf(b, sizeof b, "%s%d: schedule %lld timers in a row (from task %lld, all %s)", who, op.thr, (long long)op.a, (long long)op.b, dc[op.c % 5]); break;
        case OP_BULK_REFS: snprintf(b, sizeof b, "main: acquire %lld extra references, then release them again", (long long)op.a); break;
        case OP_EXTRA_REF: snprintf(b, sizeof b, "%s%d: acquire an extra reference (released before its own)", who, op.thr); break;
        case OP_BEHAV: snprintf(b, sizeof b, "behaviour: task %lld when RUN does %s(task %lld, %s)", (long long)op.a, ba[op.c % 6], (long long)op.d, dc[op.b % 11]); break;
        default: snprintf(b, sizeof b, "?");
    }
    return b;
}

} // namespace

extern const Harness H_C08 = {
    "C08", "thread scheduler delivers each task once, on its own thread, whatever the timing", gen, run, op_text,
    "Plans: one scheduler, in 25% of the plans a second one alive next to it (tasks handed to it by clients and from the first scheduler's thread); 0-3 client threads (+ main) issue schedule_now / schedule_future (now+{0,1ns,1us,1ms,1s,31s,2h,FAR}, past, rarely UINT64_MAX-5) / cancel "
    "(only far-future tasks whose schedule call returned) / virtual sleeps; task functions may schedule further tasks, re-schedule themselves, cancel far-future tasks or "
    "schedule-then-cancel from the scheduler thread; task objects are re-used once their previous instance is over; extra references are "
    "acquired and released; references held by main and/or clients so the last release comes from either, before or after the scheduler "
    "thread drained its hand-over queues; faults: preemption at every lock/cond/atomic/clock operation, spurious wake-ups, thread stalls up to "
    "60 s virtual, REALTIME steps, pthread_create failure in the constructor, push_ref failure in the inner scheduler. Distinct = "
    "synchronisation-order fingerprint combined with the invocation history; non-trivial = at least two threads operated on a common sync "
    "object, at least one preemption and at least one task invocation.",
    "source/thread_scheduler.c, task_scheduler.c, priority_queue.c, array_list, linked_list, ref_count.c, posix/thread.c, thread_shared.c, "
    "posix/mutex.c, posix/condition_variable.c, condition_variable.c, posix/clock.c, allocator.c (real)",
    "pthread mutex/cond/create/join semantics, CLOCK_BOOTTIME/CLOCK_REALTIME, nanosleep (simulated); aws_allocator (simulated); "
    "aws_priority_queue_push_ref failure (link-time wrap)"};
