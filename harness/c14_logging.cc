// C14 — logging delivers every accepted line exactly once, whole and in order (DESIGN.md §5 C14)
#include "harness.h"
#include "../sim/sim_file.h"

#include <aws/common/logging.h>
#include <aws/common/log_channel.h>
#include <aws/common/log_formatter.h>
#include <aws/common/log_writer.h>
#include <aws/common/string.h>
#include <aws/common/thread.h>
#include <aws/common/error.h>

#include <deque>
#include <vector>
#include <map>
#include <string>
#include <errno.h>
#include <string.h>
#include <time.h>
#include <stdarg.h>

namespace {

enum { OP_LOG = 1, OP_SETLEVEL, OP_SLEEP, OP_YIELD, OP_WRITER_FAIL, OP_STREAM_FAIL, OP_FORMAT_DIRECT, OP_LOG_SIDE, OP_SUBJECTS };
// OP_SUBJECTS (single logging thread only): a = 0 unregister the application's subject list, 1 register it with the first set of names, 2 with a second set
enum { MODE_EXT_BG = 1, MODE_EXT_FG = 2, MODE_STANDARD = 3, MODE_NOALLOC = 4 };
// cfg "own_file": modes 3 and 4 let the library open (and later close) the log file itself by name
static const int CTRL = 5;
static const size_t NOALLOC_MAX = 8192;

struct Call {
    int thr, k, level;
    const char *subject_name = nullptr;
    std::string expected_msg;
    uint64_t seq_invoke = 0, seq_return = 0;
    uint64_t real_invoke = 0, real_return = 0;
    std::vector<uint64_t> real_reads;
    int e0 = 0, e1 = 0;
    int model_level = 0;
    bool returned = false;
    int rc = 0;
    int lines = 0; // complete lines seen for this call
};

struct Rec {
    std::string bytes;
    int tid;
    uint64_t seq;
    bool partial; // stream chunk belonging to an injected short/failed write
};

struct Ctx {
    const sim::Plan *plan;
    struct aws_allocator *alloc;
    int mode;
    struct aws_logger logger;
    struct aws_log_formatter formatter;
    struct aws_log_channel channel;
    struct aws_log_writer writer;
    FILE *stream = nullptr;
    bool own_file = false;
    bool uses_stderr = false;
    std::deque<Call> calls;
    std::map<std::pair<int, int>, Call *> by_id;
    std::map<int, Call *> current; // per sim tid: log call in progress
    std::map<int, int> last_k;     // per logger thread: last k seen at the writer
    std::map<int, int> kctr;       // per logger thread: calls made so far
    std::map<int, int> thr_of_tid; // simulated thread -> logger index
    bool alloc_logs = false;       // foreground mode: the allocator logs from its release path (re-entrant log call)
    std::map<int, bool> in_hook;
    std::map<int, std::string> tid_repr; // per logger index: expected thread id text
    std::vector<Rec> recs;
    int epoch = 0, model_level = 0;
    bool cleanup_returned = false;
    uint64_t writes = 0;
    std::vector<int64_t> writer_fail_at; // write indices (1-based) at which the recording writer returns an error
    int64_t slow_permille = 0;
    sim::Rng wr{1};
    int stream_failures = 0;
    bool next_chunk_is_retry = false;
    uint64_t ops_done = 0, accepted = 0, rejected = 0, either = 0, truncated = 0;
    const char *subject_name = nullptr;
    // A second, independent logger alive next to the one under test (cfg "side_logger"): a no-alloc logger on a stream of its own,
    // used through AWS_LOGUF by the same threads. Each logger's lines must reach its own sink only, whole, once and in order.
    int nloggers = 1;
    bool deep_writer = false;
    unsigned deep_acc = 0;
    int writer_logs = 0;        // background mode: the writer logs this many lines of its own through the logger
    bool writer_nested = false;
    bool have_side = false, side_cleaned = false;
    struct aws_logger side;
    FILE *side_stream = nullptr;
    std::deque<Call> side_calls;
    std::map<std::pair<int, int>, Call *> side_by_id;
    std::map<int, int> side_last_k, side_kctr;
};
static Ctx *g = nullptr;

// Subjects registered by the application (public API): names from 1 to 300 characters. Registered once per process.
static const int kCustomLens[] = {1, 14, 40, 70, 80, 85, 88, 89, 90, 91, 94, 100, 113, 114, 120, 160, 300};
static const int kNumCustom = (int)(sizeof kCustomLens / sizeof kCustomLens[0]);
static const int kCustomPackage = 20; // a package slot no aws-c-* library uses here
static struct aws_log_subject_info g_custom_info[sizeof kCustomLens / sizeof kCustomLens[0]];
static struct aws_log_subject_info_list g_custom_list;
static std::string g_custom_names[sizeof kCustomLens / sizeof kCustomLens[0]];
static struct aws_log_subject_info g_custom_info2[sizeof kCustomLens / sizeof kCustomLens[0]];
static struct aws_log_subject_info_list g_custom_list2;
static std::string g_custom_names2[sizeof kCustomLens / sizeof kCustomLens[0]];
static int g_custom_state = 0; // which list is registered right now in this process: 0 none, 1 first names, 2 second names
// what the prefix must show for an application subject: the name registered at the time of the log call, or "Unknown"
const char *model_custom_name(int i) { return g_custom_state == 1 ? g_custom_names[i].c_str() : g_custom_state == 2 ? g_custom_names2[i].c_str() : "Unknown"; }
void set_custom_state(int want) {
    if (want == g_custom_state) return;
    if (g_custom_state == 1) aws_unregister_log_subject_info_list(&g_custom_list);
    if (g_custom_state == 2) aws_unregister_log_subject_info_list(&g_custom_list2);
    if (want == 1) aws_register_log_subject_info_list(&g_custom_list);
    if (want == 2) aws_register_log_subject_info_list(&g_custom_list2);
    g_custom_state = want;
}
void register_custom_subjects() {
    static bool done = false;
    if (done) return;
    done = true;
    for (int i = 0; i < kNumCustom; i++) {
        g_custom_names[i] = std::string((size_t)kCustomLens[i], (char)('a' + i % 26));
        if (kCustomLens[i] > 3) { g_custom_names[i][0] = 'S'; g_custom_names[i][(size_t)kCustomLens[i] - 1] = 'E'; }
        g_custom_info[i].subject_id = (aws_log_subject_t)(AWS_LOG_SUBJECT_BEGIN_RANGE(kCustomPackage) + i);
        g_custom_info[i].subject_name = g_custom_names[i].c_str();
        g_custom_info[i].subject_description = "dsim custom subject";
    }
    g_custom_list.subject_list = g_custom_info;
    g_custom_list.count = (size_t)kNumCustom;
    for (int i = 0; i < kNumCustom; i++) { // the same ids under other names of other lengths (a plug-in upgraded in place)
        g_custom_names2[i] = "v2-" + std::string((size_t)(kCustomLens[(i + 5) % kNumCustom] % 97 + 1), (char)('A' + i % 26));
        g_custom_info2[i].subject_id = g_custom_info[i].subject_id;
        g_custom_info2[i].subject_name = g_custom_names2[i].c_str();
        g_custom_info2[i].subject_description = "dsim custom subject, second edition";
    }
    g_custom_list2.subject_list = g_custom_info2;
    g_custom_list2.count = (size_t)kNumCustom;
    aws_register_log_subject_info_list(&g_custom_list);
    g_custom_state = 1;
}

static const char *kDateFmt[] = {"%a, %d %b %Y %H:%M:%S GMT", "%Y-%m-%dT%H:%M:%SZ", "%Y%m%dT%H%M%SZ"}; // RFC 822, ISO 8601, ISO 8601 basic
static int g_date_format = 1; // the formatter's date format of the current run (enum aws_date_format value)
std::string iso8601(uint64_t real_ns) {
    time_t s = (time_t)(real_ns / 1000000000ull);
    struct tm tmv;
    gmtime_r(&s, &tmv);
    char b[64];
    strftime(b, sizeof b, kDateFmt[g_date_format], &tmv);
    return b;
}

static const char *kLevel[] = {"NONE", "FATAL", "ERROR", "WARN", "INFO", "DEBUG", "TRACE"};

// examine one complete line that reached the writer
void check_line(Ctx &c, const std::string &line, int writer_tid) {
    (void)writer_tid;
    if (c.cleanup_returned) sim::violation("c14:write-after-cleanup", "a line reached the writer after clean-up had returned");
    if (line.empty() || line.back() != '\n') sim::violation("c14:newline", "line does not end in a newline: \"%.80s\"", line.c_str());
    if (line.find('\n') != line.size() - 1) sim::violation("c14:newline", "line contains an embedded newline (torn or merged lines)");
    if (memchr(line.data(), 0, line.size())) sim::violation("c14:nul", "line contains a NUL byte");
    // which logger's workload made the line: the letter that opens the message, i.e. the byte behind the FIRST "] - " (no level, timestamp,
    // thread id or subject name used here contains that text; the random message bodies may, so later occurrences mean nothing)
    size_t sep = line.find("] - ");
    char who = sep != std::string::npos && sep + 4 < line.size() ? line[sep + 4] : 0;
    if (who == 'M') sep += 1;
    else {
        if (who == 'S')
            sim::violation("c14:wrong-sink", "a line logged through the second logger reached the first logger's sink: \"%.100s\"", line.c_str());
        // a line of the library's own (different subject); not produced by the workload
        sim::probe("foreign_line");
        return;
    }
    int thr = 0, k = 0;
    if (sscanf(line.c_str() + sep + 4, "%d.%d|", &thr, &k) != 2) sim::violation("c14:format", "cannot parse message id in \"%.120s\"", line.c_str());
    auto it = c.by_id.find({thr, k});
    if (it == c.by_id.end()) sim::violation("c14:phantom", "line for call M%d.%d that was never made: \"%.120s\"", thr, k, line.c_str());
    Call &call = *it->second;
    call.lines++;
    if (call.lines > 1) sim::violation("c14:duplicate", "call M%d.%d reached the writer twice", thr, k);
    // level gate
    bool exact = call.e0 == (call.returned ? call.e1 : c.epoch) && (call.e0 % 2) == 0;
    if (exact && call.level > call.model_level)
        sim::violation("c14:level", "call M%d.%d at level %s was written although the logger level was %s", thr, k, kLevel[call.level], kLevel[call.model_level]);
    // order per thread
    int &lk = c.last_k[thr];
    if (k <= lk) sim::violation("c14:order", "thread %d: line %d reached the writer after line %d", thr, k, lk);
    lk = k;
    // prefix
    std::string msg = line.substr(sep + 3, line.size() - sep - 4);
    std::string prefix = line.substr(0, sep + 3);
    bool ts_ok = false;
    std::string want_tail = std::string("] [") + c.tid_repr[thr] + "] [" + (call.subject_name ? call.subject_name : c.subject_name) + "] - ";
    std::string want_head = std::string("[") + kLevel[call.level] + "] [";
    size_t tslen = iso8601(call.real_invoke).size();
    if (prefix.size() != want_head.size() + tslen + want_tail.size() || prefix.compare(0, want_head.size(), want_head) != 0 ||
        prefix.compare(want_head.size() + tslen, std::string::npos, want_tail) != 0)
        sim::violation("c14:prefix", "call M%d.%d: prefix \"%s\" is not \"%s<timestamp>%s\"", thr, k, prefix.c_str(), want_head.c_str(), want_tail.c_str());
    std::string ts = prefix.substr(want_head.size(), tslen);
    for (uint64_t v : call.real_reads) if (iso8601(v) == ts) ts_ok = true;
    if (call.real_reads.empty()) {
        // no REALTIME read was observed inside the call: accept any time within a wide window around the call
        uint64_t lo = call.real_invoke, hi = call.returned ? call.real_return : sim::now_real();
        struct tm tmv;
        memset(&tmv, 0, sizeof tmv);
        if (strptime(ts.c_str(), kDateFmt[g_date_format], &tmv)) {
            uint64_t t = (uint64_t)timegm(&tmv) * 1000000000ull;
            uint64_t slack = 2 * 3600000000000ull + 1000000000ull;
            ts_ok = t + slack >= (lo < hi ? lo : hi) && t <= (lo < hi ? hi : lo) + slack;
        }
    }
    if (!ts_ok) sim::violation("c14:timestamp", "call M%d.%d: timestamp %s is not the wall-clock time read during the call", thr, k, ts.c_str());
    // message
    if (c.mode == MODE_NOALLOC) {
        if (line.size() > NOALLOC_MAX) sim::violation("c14:noalloc-overrun", "no-alloc logger wrote a line of %zu bytes (buffer is %zu)", line.size(), NOALLOC_MAX);
        if (call.expected_msg.compare(0, msg.size(), msg) != 0)
            sim::violation("c14:message", "call M%d.%d: written message is not a prefix of the expected one", thr, k);
        if (msg.size() < call.expected_msg.size()) {
            c.truncated++;
            sim::probe("noalloc_line_truncated");
            if (line.size() < NOALLOC_MAX - 1) sim::violation("c14:message", "call M%d.%d: message cut although the line (%zu bytes) does not fill the buffer", thr, k, line.size());
        }
    } else if (msg != call.expected_msg) {
        size_t i = 0;
        while (i < msg.size() && i < call.expected_msg.size() && msg[i] == call.expected_msg[i]) i++;
        sim::violation("c14:message", "call M%d.%d: message differs from the formatted text at byte %zu (written %zu bytes, expected %zu)", thr, k, i, msg.size(),
                       call.expected_msg.size());
    }
}

void do_log(Ctx &c, int thr, const sim::Op &op);
static const int WRITER_IDX = 6; // logical "thread" of lines logged by the writer itself (on the background thread)

// ---- recording writer (configs 1, 2)
// a writer that needs a good deal of stack (it escapes or compresses the line in a local buffer): the thread it runs on is the library's
__attribute__((noinline)) static unsigned deep_frame(const struct aws_string *output) {
    volatile unsigned char big[96 * 1024];
    unsigned acc = 0;
    for (size_t i = 0; i < sizeof big; i += 1024) { big[i] = (unsigned char)(i >> 10); acc += big[i]; } // touches every page, top to bottom of the frame
    big[sizeof big - 1] = output->len ? output->bytes[0] : 0;
    return acc + big[sizeof big - 1];
}

int rec_write(struct aws_log_writer *w, const struct aws_string *output) {
    (void)w;
    Ctx &c = *g;
    c.writes++;
    if (c.deep_writer) { c.deep_acc += deep_frame(output); sim::probe("writer_used_96KiB_of_stack"); }
    // A writer is application code and may log through the same logger (e.g. "log file rotated"). With the background channel it runs on
    // the background thread, outside the channel's lock: the nested line is accepted like any other and must be written before clean-up
    // returns - also when it is logged while the final batch is being written.
    if (c.writer_logs > 0 && c.mode == MODE_EXT_BG && !c.writer_nested && aws_logger_get() == &c.logger && output->len && (output->len * 2654435761u >> 9) % 3 == 0) {
        c.writer_nested = true;
        c.writer_logs--;
        char repr[32];
        snprintf(repr, sizeof repr, "%016lx", (unsigned long)aws_thread_current_thread_id());
        c.tid_repr[WRITER_IDX] = repr;
        c.thr_of_tid[sim::self()] = WRITER_IDX;
        sim::probe("writer_logged_through_the_same_logger_on_the_background_thread");
        sim::Op op; op.kind = OP_LOG; op.thr = WRITER_IDX; op.a = 0 /* FATAL */; op.b = 1; op.c = 12; op.d = (int64_t)c.writes;
        do_log(c, WRITER_IDX, op);
        c.writer_nested = false;
    }
    std::string line((const char *)output->bytes, output->len);
    sim::note(sim::PK_HARNESS, nullptr, 500);
    check_line(c, line, sim::self());
    c.recs.push_back(Rec{line, sim::self(), sim::seq(), false});
    sim::yield(sim::PK_HARNESS, nullptr, 501); // the writer is a place where the writing thread can be preempted
    if (c.slow_permille && (int64_t)c.wr.below(1000) < c.slow_permille) {
        sim::probe("slow_write");
        sim::sleep_ns(c.wr.pick(std::vector<uint64_t>{1000000ull, 50000000ull, 2000000000ull}));
    }
    for (int64_t f : c.writer_fail_at)
        if ((uint64_t)f == c.writes) { sim::fault_fired("writer_returns_error"); return aws_raise_error(AWS_ERROR_FILE_WRITE_FAILURE); }
    return AWS_OP_SUCCESS;
}
void rec_clean_up(struct aws_log_writer *w) { (void)w; }
struct aws_log_writer_vtable g_rec_vtable = {rec_write, rec_clean_up};

// ---- simulated stream (configs 3, 4): one chunk per underlying write call
void stream_cb(const char *data, size_t n, void *ud) {
    Ctx &c = *(Ctx *)ud;
    c.writes++;
    std::string chunk(data, n);
    bool whole = !chunk.empty() && chunk.back() == '\n' && !c.next_chunk_is_retry;
    if (whole) check_line(c, chunk, sim::self());
    else {
        sim::probe("partial_stream_chunk");
        if (memchr(chunk.data(), 0, chunk.size())) {
            std::string vis;
            for (unsigned char ch : chunk.substr(0, 200)) { if (ch >= 0x20 && ch < 0x7f) vis += (char)ch; else { char t[8]; snprintf(t, sizeof t, "\\x%02x", ch); vis += t; } }
            sim::violation("c14:nul", "stream chunk of %zu bytes contains a NUL byte: %s", n, vis.c_str());
        }
        if (c.stream_failures == 0 && simfile::write_stream_failures() == 0)
            sim::violation("c14:torn", "a write of %zu bytes that is not one whole line reached the stream without any injected fault: \"%.60s\"", n, chunk.c_str());
    }
    c.recs.push_back(Rec{chunk, sim::self(), sim::seq(), !whole});
    if (c.slow_permille && (int64_t)c.wr.below(1000) < c.slow_permille) sim::sleep_ns(1000000ull);
}

// ---- sink of the second logger
void side_cb(const char *data, size_t n, void *ud) {
    Ctx &c = *(Ctx *)ud;
    std::string line(data, n);
    if (c.side_cleaned) sim::violation("c14:write-after-cleanup", "second logger: a line reached its stream after clean-up had returned");
    if (line.empty() || line.back() != '\n') sim::violation("c14:torn", "second logger: a write that is not one whole line reached its stream: \"%.80s\"", line.c_str());
    if (line.find('\n') != line.size() - 1) sim::violation("c14:newline", "second logger: line contains an embedded newline (torn or merged lines)");
    if (memchr(line.data(), 0, line.size())) sim::violation("c14:nul", "second logger: line contains a NUL byte");
    size_t sep = line.find("] - "); // the first one ends the prefix; message bodies are random text and may contain the same bytes again
    char who = sep != std::string::npos && sep + 4 < line.size() ? line[sep + 4] : 0;
    if (who == 'M')
        sim::violation("c14:wrong-sink", "a line logged through the first logger reached the second logger's sink: \"%.100s\"", line.c_str());
    if (who != 'S') sim::violation("c14:phantom", "second logger: unexpected line \"%.100s\"", line.c_str());
    sep += 1;
    int thr = 0, k = 0;
    if (sscanf(line.c_str() + sep + 4, "%d.%d|", &thr, &k) != 2) sim::violation("c14:format", "second logger: cannot parse message id in \"%.120s\"", line.c_str());
    auto it = c.side_by_id.find({thr, k});
    if (it == c.side_by_id.end()) sim::violation("c14:phantom", "second logger: line for call S%d.%d that was never made", thr, k);
    Call &call = *it->second;
    if (++call.lines > 1) sim::violation("c14:duplicate", "second logger: call S%d.%d reached the stream twice", thr, k);
    int &lk = c.side_last_k[thr];
    if (k <= lk) sim::violation("c14:order", "second logger, thread %d: line %d reached the stream after line %d", thr, k, lk);
    lk = k;
    std::string prefix = line.substr(0, sep + 3), msg = line.substr(sep + 3, line.size() - sep - 4);
    std::string want_head = std::string("[") + kLevel[call.level] + "] [";
    std::string want_tail = std::string("] [") + c.tid_repr[thr] + "] [" + c.subject_name + "] - ";
    if (prefix.size() < want_head.size() + want_tail.size() || prefix.compare(0, want_head.size(), want_head) != 0 ||
        prefix.compare(prefix.size() - want_tail.size(), std::string::npos, want_tail) != 0)
        sim::violation("c14:prefix", "second logger, call S%d.%d: prefix \"%s\" is not \"%s<timestamp>%s\"", thr, k, prefix.c_str(), want_head.c_str(), want_tail.c_str());
    if (line.size() > NOALLOC_MAX) sim::violation("c14:noalloc-overrun", "second (no-alloc) logger wrote a line of %zu bytes (buffer is %zu)", line.size(), NOALLOC_MAX);
    if (call.expected_msg.compare(0, msg.size(), msg) != 0) sim::violation("c14:message", "second logger, call S%d.%d: written message is not (a prefix of) the formatted text", thr, k);
    if (msg.size() < call.expected_msg.size() && line.size() < NOALLOC_MAX - 1)
        sim::violation("c14:message", "second logger, call S%d.%d: message cut although the line (%zu bytes) does not fill the buffer", thr, k, line.size());
    c.recs.push_back(Rec{line, sim::self(), sim::seq(), false});
}

void observer(const sim::Event &ev, void *ud) {
    Ctx &c = *(Ctx *)ud;
    if (ev.kind != sim::PK_CLOCK_READ) return;
    auto it = c.current.find(ev.tid);
    if (it != c.current.end() && it->second) it->second->real_reads.push_back((uint64_t)ev.result);
}

std::string make_body(uint64_t seed, size_t len) {
    sim::Rng r(sim::mix64(seed, 0xB0D1));
    std::string s(len, ' ');
    static const char special[] = "%[]- |\\\"{}%s%d%n";
    for (size_t i = 0; i < len; i++) {
        if (r.below(8) == 0) s[i] = special[r.below(sizeof special - 1)];
        else s[i] = (char)(0x20 + r.below(0x5f));
    }
    return s;
}

void do_log(Ctx &c, int thr, const sim::Op &op) {
    int &k = c.kctr[thr];
    int level = (int)(op.a % 6) + 1;
    int shape = (int)(op.b % 5);
    int form = (int)((op.a / 6) % 4); // 0 AWS_LOGF(level variable), 1 AWS_LOGF(conditional expression), 2 AWS_LOGF_<LEVEL>, 3 get_conditional + AWS_LOGUF
    // subject: general, I/O, or an id nobody registered (rendered as "Unknown")
    static const aws_log_subject_t subjects[] = {AWS_LS_COMMON_GENERAL, AWS_LS_COMMON_IO, (aws_log_subject_t)(AWS_LS_COMMON_GENERAL + 900)};
    int si = (int)((op.b / 5) % (3 + kNumCustom));
    aws_log_subject_t subject = si < 3 ? subjects[si] : (aws_log_subject_t)(AWS_LOG_SUBJECT_BEGIN_RANGE(kCustomPackage) + (si - 3));
    if (si >= 3) sim::probe("application_registered_subject");
    size_t len = (size_t)op.c;
    std::string body = make_body((uint64_t)op.d, len);
    k++;
    c.calls.emplace_back();
    Call &call = c.calls.back();
    call.thr = thr; call.k = k; call.level = level;
    call.subject_name = si >= 3 ? model_custom_name(si - 3) : aws_log_subject_name(subject);
    char head[64];
    snprintf(head, sizeof head, "M%d.%d|", thr, k);
    std::string full = std::string(head) + body;
    switch (shape) {
        case 0: case 1: case 2: call.expected_msg = full; break;
        case 3: call.expected_msg = std::string(head) + std::to_string(len) + "|" + body; break;
        case 4: call.expected_msg = std::string(head) + "100%|" + body; break;
    }
    c.by_id[{thr, k}] = &call;
    call.e0 = c.epoch;
    call.model_level = c.model_level;
    call.seq_invoke = sim::seq();
    call.real_invoke = sim::now_real();
    Call *outer = c.current.count(sim::self()) ? c.current[sim::self()] : nullptr;
    c.current[sim::self()] = &call;
    sim::note(sim::PK_HARNESS, nullptr, 600 + level);
    std::string extra = body + "TRAILING-BYTES-NOT-TO-BE-PRINTED";
    // the five format shapes, through one of four ways of making the call (all of them documented in logging.h)
#define C14_SHAPES(CALL)                                                                                  \
    switch (shape) {                                                                                      \
        case 0: CALL("%s", full.c_str()); break;                                                          \
        case 1: CALL("M%d.%d|%s", thr, k, body.c_str()); break;                                           \
        case 2: CALL("M%d.%d|%.*s", thr, k, (int)len, extra.c_str()); break;                              \
        case 3: CALL("M%d.%d|%zu|%s", thr, k, len, body.c_str()); break;                                  \
        case 4: CALL("M%d.%d|100%%|%s", thr, k, body.c_str()); break;                                     \
    }
#define C14_PLAIN(...) AWS_LOGF((enum aws_log_level)level, subject, __VA_ARGS__)
#define C14_COND(...) AWS_LOGF(first ? la : lb, subject, __VA_ARGS__)
#define C14_PER_LEVEL(...)                                                                                \
    switch (level) {                                                                                      \
        case AWS_LL_FATAL: AWS_LOGF_FATAL(subject, __VA_ARGS__); break;                                   \
        case AWS_LL_ERROR: AWS_LOGF_ERROR(subject, __VA_ARGS__); break;                                   \
        case AWS_LL_WARN: AWS_LOGF_WARN(subject, __VA_ARGS__); break;                                     \
        case AWS_LL_INFO: AWS_LOGF_INFO(subject, __VA_ARGS__); break;                                     \
        case AWS_LL_DEBUG: AWS_LOGF_DEBUG(subject, __VA_ARGS__); break;                                   \
        default: AWS_LOGF_TRACE(subject, __VA_ARGS__); break;                                             \
    }
#define C14_UNCOND(...)                                                                                   \
    do {                                                                                                  \
        struct aws_logger *lg = aws_logger_get_conditional(subject, (enum aws_log_level)level);           \
        if (lg) AWS_LOGUF(lg, (enum aws_log_level)level, subject, __VA_ARGS__)                            \
    } while (0)
    switch (form) {
        case 1: { // the level argument is a conditional expression (lower precedence than the macro's comparison)
            bool first = ((uint64_t)op.d & 1) != 0;
            enum aws_log_level la = first ? (enum aws_log_level)level : AWS_LL_FATAL, lb = first ? AWS_LL_TRACE : (enum aws_log_level)level;
            sim::probe("log_call_level_is_conditional_expression");
            C14_SHAPES(C14_COND)
            break;
        }
        case 2: sim::probe("log_call_per_level_macro"); C14_SHAPES(C14_PER_LEVEL) break;
        case 3: sim::probe("log_call_get_conditional_then_unconditional_macro"); C14_SHAPES(C14_UNCOND) break;
        default: C14_SHAPES(C14_PLAIN)
    }
    c.current[sim::self()] = outer;
    call.returned = true;
    call.e1 = c.epoch;
    call.seq_return = sim::seq();
    call.real_return = sim::now_real();
    c.ops_done++;
    bool exact = call.e0 == call.e1 && (call.e0 % 2) == 0;
    if (!exact) { c.either++; sim::probe("log_call_overlapping_level_change"); }
    else if (level <= call.model_level) c.accepted++;
    else c.rejected++;
    // synchronous configurations: the line has been written when the call returns
    if ((c.mode == MODE_EXT_FG || c.mode == MODE_NOALLOC) && exact && level <= call.model_level && call.lines != 1 && c.stream_failures == 0 &&
        simfile::write_stream_failures() == 0)
        sim::violation("c14:lost", "call M%d.%d returned but its line did not reach the writer (synchronous logger)", thr, k);
}

// The fixed-size-buffer clause at every buffer size: aws_format_standard_log_line() (the formatter behind the no-alloc logger)
// into a heap buffer of `total` bytes taken from the simulated allocator (guard bands behind it).
static int format_direct_va(struct aws_logging_standard_formatting_data *fd, ...) {
    va_list ap;
    va_start(ap, fd);
    int rc = aws_format_standard_log_line(fd, ap);
    va_end(ap);
    return rc;
}
void do_log_side(Ctx &c, int thr, const sim::Op &op) {
    if (!c.have_side) return;
    int level = (int)(op.a % 6) + 1;
    size_t len = (size_t)op.c;
    std::string body = make_body((uint64_t)op.d, len);
    int k = ++c.side_kctr[thr];
    c.side_calls.emplace_back();
    Call &call = c.side_calls.back();
    call.thr = thr; call.k = k; call.level = level;
    char head[64];
    snprintf(head, sizeof head, "S%d.%d|", thr, k);
    call.expected_msg = std::string(head) + body;
    c.side_by_id[{thr, k}] = &call;
    sim::note(sim::PK_HARNESS, nullptr, 650 + level);
    sim::probe("line_logged_through_second_logger");
    struct aws_logger *sl = &c.side;
    AWS_LOGUF(sl, (enum aws_log_level)level, AWS_LS_COMMON_GENERAL, "S%d.%d|%s", thr, k, body.c_str())
    call.returned = true;
    c.ops_done++;
}

void do_format_direct(Ctx &c, int thr, const sim::Op &op) {
    size_t total = (size_t)op.a;
    if (total == 0) total = 1;
    int level = (int)(op.b % 6) + 1;
    std::string body = make_body((uint64_t)op.d, (size_t)op.c);
    char *buf = (char *)aws_mem_acquire(c.alloc, total);
    memset(buf, 0x7e, total);
    struct aws_logging_standard_formatting_data fd;
    memset(&fd, 0, sizeof fd);
    fd.log_line_buffer = buf; fd.total_length = total; fd.level = (enum aws_log_level)level; fd.subject_name = c.subject_name;
    fd.format = "D%d|%s"; fd.date_format = (enum aws_date_format)g_date_format; fd.allocator = c.alloc;
    uint64_t r0 = sim::now_real();
    Call tmp; tmp.thr = thr; tmp.k = -1; tmp.level = level;
    c.current[sim::self()] = &tmp;
    int rc = format_direct_va(&fd, thr, body.c_str());
    c.current[sim::self()] = nullptr;
    c.ops_done++;
    if (rc == AWS_OP_SUCCESS) {
        size_t n = fd.amount_written;
        if (n == 0 || n > total) sim::violation("c14:fixed-buffer", "formatter reports %zu bytes written into a buffer of %zu", n, total);
        if (buf[n - 1] != '\n') sim::violation("c14:newline", "line cut to fit a %zu-byte buffer does not end in a newline (%zu bytes written)", total, n);
        if (memchr(buf, 0, n)) sim::violation("c14:nul", "line cut to fit a %zu-byte buffer contains a NUL byte", total);
        if (memchr(buf, '\n', n - 1)) sim::violation("c14:newline", "embedded newline in a cut line");
        // the text before the newline is a prefix of the full line
        std::string ts;
        for (uint64_t v : tmp.real_reads) ts = iso8601(v);
        if (ts.empty()) ts = iso8601(r0);
        char head[160];
        snprintf(head, sizeof head, "[%s] [%s] [%s] [%s] - D%d|", kLevel[level], ts.c_str(), c.tid_repr[thr].c_str(), c.subject_name, thr);
        std::string full = std::string(head) + body;
        if (full.compare(0, n - 1, buf, n - 1) != 0) {
            size_t i = 0;
            while (i < n - 1 && i < full.size() && full[i] == buf[i]) i++;
            sim::violation("c14:fixed-buffer", "line cut to fit a %zu-byte buffer is not a prefix of the full line (differs at byte %zu of %zu)", total, i, n);
        }
        if (n - 1 < full.size()) sim::probe("direct_format_truncated");
        if (n - 1 < full.size() && n + 1 < total) sim::violation("c14:fixed-buffer", "line of %zu bytes cut although the buffer has %zu bytes", n, total);
    } else sim::probe("direct_format_refused_tiny_buffer");
    aws_mem_release(c.alloc, buf); // guard bands are checked by the allocator
}

// An allocator that logs from its release path (a tracing allocator with the usual re-entrancy guard): with the foreground
// channel the nested call is simply written next. Only armed while the releasing thread is inside a log call.
void logging_release_hook(void *p, size_t size, void *ud) {
    (void)p; (void)size;
    Ctx &c = *(Ctx *)ud;
    int tid = sim::self();
    if (!c.alloc_logs || c.cleanup_returned || c.in_hook[tid]) return;
    auto it = c.current.find(tid);
    if (it == c.current.end() || !it->second || it->second->k < 0) return;
    auto th = c.thr_of_tid.find(tid);
    if (th == c.thr_of_tid.end()) return;
    c.in_hook[tid] = true;
    sim::probe("allocator_logged_from_release_path");
    sim::Op op; op.kind = OP_LOG; op.thr = th->second; op.a = 0 /* FATAL: passes every filter but NONE */; op.b = 1; op.c = 9; op.d = (int64_t)size;
    do_log(c, th->second, op);
    c.in_hook[tid] = false;
}

struct ThreadArg { Ctx *c; int idx; };

void logger_fn(void *arg) {
    ThreadArg *ta = (ThreadArg *)arg;
    Ctx &c = *ta->c;
    char repr[32];
    snprintf(repr, sizeof repr, "%016lx", (unsigned long)aws_thread_current_thread_id());
    c.tid_repr[ta->idx] = repr;
    c.thr_of_tid[sim::self()] = ta->idx;
    for (const sim::Op &op : c.plan->ops) {
        if (op.thr != ta->idx) continue;
        if (c.plan->get("poison_errors", 0)) hx::poison_errors(c.plan->seed, sim::seq());
        switch (op.kind) {
            case OP_LOG: do_log(c, ta->idx, op); break;
            case OP_LOG_SIDE: do_log_side(c, ta->idx, op); break;
            case OP_FORMAT_DIRECT: do_format_direct(c, ta->idx, op); break;
            case OP_SUBJECTS:
                if (c.nloggers == 1) { sim::probe("application_subject_list_unregistered_or_replaced"); set_custom_state((int)(op.a % 3)); }
                break;
            case OP_SLEEP: sim::sleep_ns((uint64_t)op.a); break;
            case OP_YIELD: sim::yield(); break;
            case OP_SETLEVEL: {
                c.epoch++;
                sim::note(sim::PK_HARNESS, nullptr, 700 + op.a);
                aws_logger_set_log_level(&c.logger, (enum aws_log_level)(op.a % 7));
                c.model_level = (int)(op.a % 7);
                c.epoch++;
                c.ops_done++;
                break;
            }
            case OP_STREAM_FAIL:
                if (c.stream || c.own_file) { simfile::write_stream_fail((int)op.a, (int)op.c, (size_t)op.b); c.stream_failures++; }
                break;
        }
    }
}

void final_checks(Ctx &c) {
    // clean-up has returned: everything accepted has been written
    size_t missing = 0;
    const Call *first_missing = nullptr;
    for (auto &call : c.calls) {
        bool exact = call.e0 == call.e1 && (call.e0 % 2) == 0;
        if (exact && call.level <= call.model_level && call.lines == 0) { missing++; if (!first_missing) first_missing = &call; }
        if (exact && call.level > call.model_level && call.lines != 0)
            sim::violation("c14:level", "call M%d.%d above the level was written", call.thr, call.k);
    }
    size_t allowance = (size_t)simfile::write_stream_failures();
    if (missing > allowance)
        sim::violation("c14:lost", "%zu accepted line(s) never reached the writer although clean-up has returned (first: M%d.%d, level %s; injected stream failures: %zu)",
                       missing, first_missing->thr, first_missing->k, kLevel[first_missing->level], allowance);
}

RunInfo run(const sim::Plan &plan) {
    simalloc::Config ac;
    ac.seed = plan.seed;
    ac.has_realloc = plan.get("alloc_realloc", 1) != 0;
    ac.has_calloc = plan.get("alloc_calloc", 1) != 0;
    ac.yield_points = plan.get("alloc_yield", 0) != 0;
    Ctx c;
    g = &c;
    c.plan = &plan;
    c.alloc = simalloc::create(ac);
    c.mode = (int)plan.get("mode", 1);
    c.model_level = (int)plan.get("init_level", 6) % 7;
    c.slow_permille = plan.get("slow_permille", 0);
    c.wr = sim::Rng(sim::mix64(plan.seed, 0x51077));
    register_custom_subjects();
    set_custom_state(1); // every run starts with the first list registered (an earlier run may have ended in another state)
    c.subject_name = aws_log_subject_name(AWS_LS_COMMON_GENERAL);
    simfile::reset();
    for (const sim::Op &op : plan.ops) if (op.kind == OP_WRITER_FAIL) c.writer_fail_at.push_back(op.a);
    int nloggers = (int)plan.get("nloggers", 2);
    if (nloggers < 1) nloggers = 1;
    if (nloggers > 4) nloggers = 4;
    c.nloggers = nloggers;

    g_date_format = 1; // the standard and no-alloc loggers always use ISO 8601
    sim::begin(plan);
    sim::set_observer(observer, &c);
    c.alloc_logs = c.mode == MODE_EXT_FG && plan.get("alloc_logs", 0) != 0;
    c.writer_logs = c.mode == MODE_EXT_BG ? (int)plan.get("writer_logs", 0) : 0;
    c.deep_writer = plan.get("deep_writer", 0) != 0;
    if (c.alloc_logs) simalloc::set_release_hook(logging_release_hook, &c);
    int cf = (int)plan.get("create_fail", 0);
    bool init_failed = false;
    if (c.mode == MODE_EXT_BG || c.mode == MODE_EXT_FG) {
        g_date_format = (int)plan.get("date_format", 1) % 3;
        struct aws_log_formatter_standard_options fo = {(enum aws_date_format)g_date_format};
        aws_log_formatter_init_default(&c.formatter, c.alloc, &fo);
        c.writer.vtable = &g_rec_vtable;
        c.writer.allocator = c.alloc;
        c.writer.impl = nullptr;
        int rc;
        if (c.mode == MODE_EXT_BG) {
            if (cf) sim::set_create_fail(1, cf);
            rc = aws_log_channel_init_background(&c.channel, c.alloc, &c.writer);
        } else rc = aws_log_channel_init_foreground(&c.channel, c.alloc, &c.writer);
        if (rc) {
            if (!(cf && c.mode == MODE_EXT_BG)) sim::violation("c14:init", "channel init failed without an injected fault");
            aws_log_formatter_clean_up(&c.formatter);
            init_failed = true;
        } else {
            if (cf && c.mode == MODE_EXT_BG) sim::violation("c14:init", "thread creation failed but channel init reported success");
            if (aws_logger_init_from_external(&c.logger, c.alloc, &c.formatter, &c.channel, &c.writer, (enum aws_log_level)c.model_level))
                sim::violation("c14:init", "logger init failed");
        }
    } else {
        bool own_file = plan.get("own_file", 0) != 0;
        struct aws_logger_standard_options so;
        AWS_ZERO_STRUCT(so);
        so.level = (enum aws_log_level)c.model_level;
        bool to_stderr = c.mode == MODE_NOALLOC && plan.get("stderr_default", 0) != 0; // neither a file name nor a FILE*: "uses stderr"
        if (to_stderr) {
            simfile::set_stderr_sink(stream_cb, &c);
            c.uses_stderr = true;
            own_file = false;
            sim::probe("noalloc_logger_on_default_stderr");
        } else
        if (own_file) {
            simfile::set_log_path_sink(stream_cb, &c);
            if (plan.get("fopen_fail", 0)) simfile::set_log_path_fopen_errno((int)plan.get("fopen_fail", 0));
            so.filename = simfile::kLogPath;
            c.own_file = true;
        } else if (!to_stderr) {
            c.stream = simfile::open_write_stream(stream_cb, &c);
            so.file = c.stream;
        }
        int rc;
        int file_args = c.mode == MODE_STANDARD ? (int)plan.get("file_args", 0) : 0; // 1: both a name and a FILE*, 2: neither - both refused
        if (file_args == 1) { if (!so.file) { c.stream = simfile::open_write_stream(stream_cb, &c); so.file = c.stream; } so.filename = "/dsim/other"; }
        if (file_args == 2) { if (c.stream) { fclose(c.stream); c.stream = nullptr; } so.file = nullptr; so.filename = nullptr; c.own_file = false; }
        if (c.mode == MODE_STANDARD) {
            if (cf) sim::set_create_fail(1, cf);
            rc = aws_logger_init_standard(&c.logger, c.alloc, &so);
        } else rc = aws_logger_init_noalloc(&c.logger, c.alloc, &so);
        bool fopen_fault = (c.own_file && plan.get("fopen_fail", 0) != 0) || file_args != 0;
        if (file_args && rc == AWS_OP_SUCCESS) sim::violation("c14:init", "aws_logger_init_standard accepted %s", file_args == 1 ? "both a file name and a FILE*" : "neither a file name nor a FILE*");
        if (file_args && rc) sim::probe("logger_init_refused_bad_file_arguments");
        if (rc) {
            if (!(cf && c.mode == MODE_STANDARD) && !fopen_fault) sim::violation("c14:init", "logger init failed without an injected fault");
            init_failed = true;
        } else if ((cf && c.mode == MODE_STANDARD) || fopen_fault) sim::violation("c14:init", "an injected init fault (thread creation / fopen) was ignored: logger init reported success");
    }
    if (init_failed) {
        if (c.stream) fclose(c.stream);
        if (c.own_file && simfile::log_path_opens() != simfile::log_path_closes())
            sim::violation("c14:file-leak", "failed logger init left the log file open (%d opens, %d closes)", simfile::log_path_opens(), simfile::log_path_closes());
        simalloc::expect_balanced("after failed init");
        RunInfo ri;
        ri.st = sim::end();
        ri.case_fp = sim::mix64(14, (uint64_t)cf * 8 + (uint64_t)c.mode);
        g = nullptr;
        return ri;
    }
    aws_logger_set(&c.logger);
    if (plan.get("side_logger", 0)) {
        struct aws_logger_standard_options so2;
        AWS_ZERO_STRUCT(so2);
        so2.level = AWS_LL_TRACE;
        c.side_stream = simfile::open_write_stream(side_cb, &c);
        so2.file = c.side_stream;
        if (aws_logger_init_noalloc(&c.side, c.alloc, &so2)) sim::violation("c14:init", "second logger: aws_logger_init_noalloc failed");
        c.have_side = true;
        sim::probe("two_loggers_alive");
    }
    struct aws_thread th[6];
    ThreadArg ta[6];
    int nth = 0;
    for (int i = 1; i <= nloggers; i++) ta[nth++] = ThreadArg{&c, i};
    bool have_ctrl = false;
    for (const sim::Op &op : plan.ops) if (op.thr == CTRL) have_ctrl = true;
    if (have_ctrl) ta[nth++] = ThreadArg{&c, CTRL};
    for (int i = 0; i < nth; i++) {
        aws_thread_init(&th[i], c.alloc);
        if (aws_thread_launch(&th[i], logger_fn, &ta[i], nullptr)) sim::violation("c14:harness", "thread launch failed");
    }
    for (int i = 0; i < nth; i++) { aws_thread_join(&th[i]); aws_thread_clean_up(&th[i]); }
    // no send is in flight any more. Clean up without giving the background thread a chance to drain first.
    int queued = 0;
    for (auto &call : c.calls) if (call.lines == 0 && call.level <= call.model_level) queued++;
    if (queued && (c.mode == MODE_EXT_BG || c.mode == MODE_STANDARD)) sim::probe("cleanup_with_lines_still_queued");
    // with a writer that logs, the logger stays installed while the channel drains (lines the writer logs during the final batch are accepted)
    const bool keep_logger = plan.get("writer_logs", 0) > 0 && c.mode == MODE_EXT_BG;
    if (!keep_logger) aws_logger_set(nullptr);
    int bg_tid = (c.mode == MODE_EXT_BG || c.mode == MODE_STANDARD) ? 1 : -1;
    sim::note(sim::PK_HARNESS, nullptr, 800);
    if (c.mode == MODE_EXT_BG || c.mode == MODE_EXT_FG) {
        aws_log_channel_clean_up(&c.channel);
        if (keep_logger) aws_logger_set(nullptr);
        if (bg_tid > 0 && !sim::thread_done(bg_tid)) sim::violation("c14:thread-alive", "channel clean-up returned but the background thread has not exited");
        final_checks(c);
        c.cleanup_returned = true;
        aws_logger_clean_up(&c.logger);
        aws_log_formatter_clean_up(&c.formatter);
    } else {
        aws_logger_clean_up(&c.logger);
        if (bg_tid > 0 && !sim::thread_done(bg_tid)) sim::violation("c14:thread-alive", "logger clean-up returned but the background thread has not exited");
        final_checks(c);
        c.cleanup_returned = true;
        if (c.own_file) {
            if (simfile::log_path_opens() != 1 || simfile::log_path_closes() != 1)
                sim::violation("c14:file-leak", "logger that opened its own file: %d opens, %d closes after clean-up", simfile::log_path_opens(), simfile::log_path_closes());
        } else if (c.stream) fclose(c.stream);
        if (simfile::std_stream_closes())
            sim::violation("c14:closed-standard-stream", "the logger closed a standard stream of the process (%d fclose call(s) on stdin/stdout/stderr)", simfile::std_stream_closes());
    }
    if (c.have_side) {
        aws_logger_clean_up(&c.side);
        c.side_cleaned = true;
        fclose(c.side_stream);
        for (auto &call : c.side_calls)
            if (call.lines != 1) sim::violation("c14:lost", "second logger: call S%d.%d never reached its stream although clean-up has returned", call.thr, call.k);
    }
    sim::sleep_ns(5000000000ull); // grace period: nothing may be written after clean-up
    if (sim::mutex_held_any()) sim::violation("c14:lock-held", "a mutex is still locked at the end of the run");
    simalloc::expect_balanced("after logger clean-up");
    RunInfo ri;
    ri.st = sim::end();
    ri.ops_done = c.ops_done;
    uint64_t h = ri.st.sync_fp;
    for (auto &r : c.recs) h = sim::mix64(h, (uint64_t)r.bytes.size() * 16 + (uint64_t)r.tid);
    ri.case_fp = h;
    ri.nontrivial = ri.st.shared_objs >= 1 && ri.st.preemptions >= 1 && c.recs.size() >= 2;
    g = nullptr;
    return ri;
}

void gen(uint64_t seed, int tier, sim::Plan &p) {
    sim::Rng r(sim::mix64(seed, 0xC14));
    p = sim::Plan();
    p.prop = "C14";
    p.seed = seed;
    int mode = (int)r.pick(std::vector<int64_t>{1, 1, 1, 1, 2, 3, 3, 4, 4});
    p.cfg["mode"] = mode;
    hgen::sched_config(r, p, true, true, true, true, (mode == 1 || mode == 3) ? 1 : -1);
    int nl = (int)r.range(1, 4);
    p.cfg["nloggers"] = nl;
    p.cfg["init_level"] = r.pick(std::vector<int64_t>{6, 6, 6, 4, 3, 1, 0});
    if (mode == 2 && r.chance(0.3)) p.cfg["alloc_logs"] = 1;
    if (mode == 1 && r.chance(0.3)) p.cfg["writer_logs"] = r.range(1, 4);
    if (mode <= 2 && r.chance(0.15)) p.cfg["deep_writer"] = 1;
    if (mode <= 2) p.cfg["date_format"] = r.pick(std::vector<int64_t>{1, 1, 0, 2}); // formatter option: ISO 8601, RFC 822, ISO 8601 basic
    p.cfg["alloc_realloc"] = r.chance(0.8);
    p.cfg["alloc_calloc"] = r.chance(0.8);
    p.cfg["alloc_yield"] = r.chance(0.4);
    if (r.chance(0.3)) p.cfg["slow_permille"] = r.pick(std::vector<int64_t>{50, 300, 1000});
    if ((mode == 1 || mode == 3) && r.chance(0.04)) p.cfg["create_fail"] = r.pick(std::vector<int64_t>{EAGAIN, ENOMEM, EPERM});
    if (mode == 3 && r.chance(0.03)) p.cfg["file_args"] = r.range(1, 2);
    if (mode == 4 && r.chance(0.2)) p.cfg["stderr_default"] = 1;
    else if ((mode == 3 || mode == 4) && r.chance(0.4)) {
        p.cfg["own_file"] = 1;
        if (r.chance(0.08)) p.cfg["fopen_fail"] = r.pick(std::vector<int64_t>{EACCES, ENOENT, EMFILE});
    }
    bool side = r.chance(0.2);
    if (side) p.cfg["side_logger"] = 1;
    bool faults = p.get("faults") != 0;
    int maxl = tier ? 40 : 14;
    int total = 0;
    for (int t = 1; t <= nl; t++) {
        int n = (int)r.range(1, maxl);
        if (r.chance(0.3)) n = (int)r.range(1, 3);
        for (int i = 0; i < n; i++) {
            sim::Op op;
            op.thr = t;
            op.kind = OP_LOG;
            op.a = r.range(0, 5) + 6 * (r.chance(0.7) ? 0 : r.range(1, 3));
            op.b = r.range(0, 4) + 5 * (r.chance(0.6) ? 0 : r.range(1, 2 + kNumCustom));
            uint64_t k = r.below(100);
            if (k < 10) op.c = 0;
            else if (k < 60) op.c = r.range(1, 80);
            else if (k < 80) op.c = r.range(80, 1000);
            else if (k < 90) op.c = r.range(8000, 8300); // around the no-alloc buffer size
            else op.c = r.range(1000, 10000);
            op.d = (int64_t)(r.next() >> 2);
            p.ops.push_back(op);
            total++;
            if (r.chance(0.15)) {
                sim::Op f; f.thr = t; f.kind = OP_FORMAT_DIRECT;
                f.a = r.chance(0.7) ? r.range(1, 120) : r.range(1, 400);
                f.b = r.range(0, 5); f.c = r.pick(std::vector<int64_t>{0, 1, 5, 40, 300}); f.d = (int64_t)(r.next() >> 2);
                p.ops.push_back(f);
            }
            if (nl == 1 && r.chance(0.08)) { sim::Op su; su.thr = t; su.kind = OP_SUBJECTS; su.a = r.range(0, 2); p.ops.push_back(su); }
            if (r.chance(0.12)) { sim::Op s; s.thr = t; s.kind = r.chance(0.5) ? OP_YIELD : OP_SLEEP; s.a = r.pick(std::vector<int64_t>{1000, 1000000, 1000000000}); p.ops.push_back(s); }
            if (side && r.chance(0.5)) {
                sim::Op so; so.thr = t; so.kind = OP_LOG_SIDE; so.a = r.range(0, 5); so.c = r.chance(0.85) ? r.range(0, 200) : r.range(8000, 8300); so.d = (int64_t)(r.next() >> 2);
                p.ops.push_back(so);
            }
            if (!side && faults && (mode == 3 || mode == 4) && r.chance(0.03)) {
                sim::Op f; f.thr = t; f.kind = OP_STREAM_FAIL; f.a = r.range(1, 3); f.b = r.pick(std::vector<int64_t>{0, 0, 10, 100}); f.c = r.pick(std::vector<int64_t>{EIO, ENOSPC});
                p.ops.push_back(f);
            }
        }
    }
    if (r.chance(tier ? 0.03 : 0.015)) {
        // scale run: one thread logs several hundred short lines (the pending list has to grow repeatedly)
        int t = (int)r.range(1, nl);
        int n = (int)r.range(300, 600);
        for (int i = 0; i < n; i++) {
            sim::Op op; op.thr = t; op.kind = OP_LOG; op.a = r.range(0, 5); op.b = r.range(0, 4); op.c = r.range(0, 12); op.d = (int64_t)(r.next() >> 2);
            p.ops.push_back(op);
            total++;
        }
        p.cfg["alloc_yield"] = 0;
    }
    if (r.chance(0.5)) {
        int n = (int)r.range(1, 6);
        for (int i = 0; i < n; i++) {
            sim::Op op; op.thr = CTRL; op.kind = OP_SETLEVEL; op.a = r.range(0, 6);
            p.ops.push_back(op);
            sim::Op s; s.thr = CTRL; s.kind = r.chance(0.5) ? OP_YIELD : OP_SLEEP; s.a = r.pick(std::vector<int64_t>{1000, 1000000, 100000000});
            p.ops.push_back(s);
        }
    }
    if (faults && (mode == 1 || mode == 2) && r.chance(0.3)) {
        int n = (int)r.range(1, 3);
        for (int i = 0; i < n; i++) { sim::Op f; f.thr = -1; f.kind = OP_WRITER_FAIL; f.a = r.range(1, total > 1 ? total : 1); p.ops.push_back(f); }
    }
    p.cfg["soft_budget"] = 150000;
    p.cfg["hard_budget"] = 3000000;
}

std::string op_text(const sim::Op &op) {
    char b[200];
    static const char *sh[] = {"\"%s\"", "\"M%d.%d|%s\"", "\"M%d.%d|%.*s\"", "\"M%d.%d|%zu|%s\"", "\"M%d.%d|100%%|%s\""};
    switch (op.kind) {
        case OP_LOG: {
            static const char *fm[] = {"AWS_LOGF", "AWS_LOGF with `c ? l1 : l2` as level argument,", "AWS_LOGF_<LEVEL>", "aws_logger_get_conditional + AWS_LOGUF"};
            snprintf(b, sizeof b, "T%d: %s(%s, format %s, body of %lld bytes)", op.thr, fm[(op.a / 6) % 4], kLevel[op.a % 6 + 1], sh[op.b % 5], (long long)op.c);
            break;
        }
        case OP_SUBJECTS: snprintf(b, sizeof b, "T%d: application subject list: %s", op.thr, op.a % 3 == 0 ? "unregister" : op.a % 3 == 1 ? "register (first names)" : "register (second names, same ids)"); break;
        case OP_LOG_SIDE: snprintf(b, sizeof b, "T%d: AWS_LOGUF(second logger, %s, body of %lld bytes)", op.thr, kLevel[op.a % 6 + 1], (long long)op.c); break;
        case OP_SETLEVEL: snprintf(b, sizeof b, "controller: aws_logger_set_log_level(%s)", kLevel[op.a % 7]); break;
        case OP_SLEEP: snprintf(b, sizeof b, "T%d: sleep(%lld ns virtual)", op.thr, (long long)op.a); break;
        case OP_YIELD: snprintf(b, sizeof b, "T%d: yield", op.thr); break;
        case OP_WRITER_FAIL: snprintf(b, sizeof b, "fault: writer returns AWS_OP_ERR on write #%lld", (long long)op.a); break;
        case OP_FORMAT_DIRECT: snprintf(b, sizeof b, "T%d: aws_format_standard_log_line into a %lld-byte buffer (%s, body of %lld bytes)", op.thr, (long long)(op.a ? op.a : 1), kLevel[op.b % 6 + 1], (long long)op.c); break;
        case OP_STREAM_FAIL: snprintf(b, sizeof b, "T%d: fault: stream write #%lld from now accepts %lld bytes then fails with errno %lld", op.thr, (long long)op.a, (long long)op.b, (long long)op.c); break;
        default: snprintf(b, sizeof b, "?");
    }
    return b;
}

} // namespace

extern const Harness H_C14 = {
    "C14", "logging delivers every accepted line exactly once, whole and in order", gen, run, op_text,
    "Plans: logger configuration (external pipeline with background or foreground channel and a recording writer; aws_logger_init_standard "
    "and aws_logger_init_noalloc on a simulated FILE*), 1-4 logging threads x 1-40 AWS_LOGF calls (all levels, five format shapes, bodies of "
    "0-10000 printable bytes incl. '%' and separators, sizes around the 8 KiB no-alloc buffer), a controller thread changing the level, "
    "clean-up issued right after the loggers finished (before the background thread drained); faults: preemption at every "
    "lock/cond/atomic/clock/allocator/writer call, spurious wake-ups, stalls, REALTIME steps, slow writer, writer returning an error, stream "
    "write errors/short writes, pthread_create failure during init. Distinct = synchronisation-order fingerprint combined with the sequence "
    "of (line size, writing thread); non-trivial = threads shared a sync object, at least one preemption, at least two lines written.",
    "source/logging.c, log_formatter.c, log_channel.c, log_writer.c, date_time.c, posix/clock.c, posix/thread.c, thread_shared.c, "
    "posix/mutex.c, posix/condition_variable.c, array_list, string.c, allocator.c (real)",
    "pthread/clock semantics (simulated), aws_log_writer (recording writer) or the FILE* behind the file writer / no-alloc logger "
    "(fopencookie stream), aws_allocator (simulated)"};
