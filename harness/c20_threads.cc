// C20 — threads run once, run their exit callbacks, and managed threads all get joined (DESIGN.md §5 C20)
#include "harness.h"

#include <aws/common/clock.h>
#include <aws/common/thread.h>
#include <aws/common/logging.h>
#include <aws/common/error.h>

#include <deque>
#include <vector>
#include <map>
#include <set>
#include <errno.h>
#include <limits.h>
#include <string.h>

extern "C" {
#include <aws/common/private/thread_shared.h> // aws_thread_get_managed_thread_count (exported; observe_at of C20); no C++ guards of its own
}

namespace {

enum { OP_SPEC = 1, OP_LAUNCH, OP_JOIN, OP_JOIN_ALL, OP_SET_TIMEOUT, OP_SLEEP, OP_YIELD, OP_ATEXIT, OP_ATEXIT_MAIN, OP_COUNT_QUERY, OP_DETACH, OP_CALL_ONCE, OP_LIB_REINIT, OP_EXT_PARTICIPATE, OP_SELF_JOIN };
// OP_SELF_JOIN: a joinable thread calls aws_thread_join on its own handle (documented outcome: AWS_ERROR_THREAD_DEADLOCK_DETECTED); the
// thread stays joinable and the owner's later join must still wait for it
// OP_EXT_PARTICIPATE: a = virtual ns between the two calls: aws_thread_increment_unjoined_count(); ...; aws_thread_decrement_unjoined_count()
// OP_CALL_ONCE: a = flag (0..2), b = the once-function registers an at-exit callback on the thread it runs on
static const int MAXT = 12;

struct TRec {
    int id = 0;
    bool defined = false;
    bool managed = false;
    int opt = 0;   // 0 NULL options (manual only), 1 default, 2 name, 3 cpu_id, 4 name+cpu, 5 stack 16 KiB+, 6 stack 1 MiB
    int fault = 0; // 0 none, >0 errno for pthread_create, -1 setaffinity fails
    struct aws_thread thread;
    bool launch_invoked = false, launch_returned = false, launched_ok = false;
    int launcher = -1;
    int fn_runs = 0;
    bool fn_done = false;
    int sim_tid = -1;
    std::vector<int> atexit_registered; // every tag ever registered
    std::vector<int> atexit_pending;    // stack: registered and not yet run
    std::vector<int> atexit_nesting;    // tags whose callback registers one more callback while the chain is being run
    int atexit_ran = 0;
    std::set<int> atexit_floating;      // registered by the allocator's release path: must run once on this thread, position in the chain not modelled
    bool registering = false; // an aws_thread_current_at_exit call of the workload is in progress (its tag is already on top of atexit_pending)
    int os_joins = 0;
    bool joined_by_api = false;
    bool detached = false; // aws_thread_clean_up without a join: the thread runs on its own
};

struct Ctx {
    const sim::Plan *plan;
    struct aws_allocator *alloc;
    TRec t[MAXT + 1];
    std::map<int, int> by_tid; // sim tid -> id
    uint64_t ops_done = 0, hist = 20;
    // join_all bookkeeping
    std::map<int, std::vector<uint64_t>> ja_reads; // per calling simulated thread: wall-clock reads made inside its join_all call
    int main_tid = 0;
    int self_join_in_progress = 0; // OP_SELF_JOIN calls under way (the OS-level EDEADLK is expected then)
    bool small_default_stack = false; // the simulated system hands out 128 KiB stacks by default
    uint64_t timeout_ns = 0;
    struct Ext { uint64_t inc_done_seq; bool dec_invoked; }; // a thread the library does not manage takes part in the unjoined count (public API)
    std::deque<Ext> exts;
    struct TSet { uint64_t b, e, old_v, new_v; };
    std::vector<TSet> timeout_sets; // every set_managed_join_timeout call: event sequence numbers of its begin and end, value before and after
};
static Ctx *g = nullptr;

void body(Ctx &c, int id);

void atexit_cb(void *ud) {
    Ctx &c = *g;
    int code = (int)(intptr_t)ud;
    int id = code / 1000, tag = code % 1000;
    TRec &r = c.t[id];
    sim::note(sim::PK_HARNESS, nullptr, 3000 + code);
    if (sim::self() != r.sim_tid)
        sim::violation("c20:atexit-thread", "at-exit callback of thread %d ran on T%d instead of its own thread T%d", id, sim::self(), r.sim_tid);
    if (!r.fn_done) sim::violation("c20:atexit-early", "at-exit callback of thread %d ran before the thread function returned", id);
    if (r.atexit_floating.count(tag)) {
        r.atexit_floating.erase(tag);
        r.atexit_ran++;
        c.hist = sim::mix64(c.hist, (uint64_t)code);
        return;
    }
    if (r.atexit_pending.empty()) sim::violation("c20:atexit-twice", "thread %d: more at-exit invocations than registrations", id);
    int expect = r.atexit_pending.back();
    if (tag != expect)
        sim::violation("c20:atexit-order", "thread %d: at-exit callback #%d ran, expected #%d (reverse order of registration)", id, tag, expect);
    r.atexit_pending.pop_back();
    for (int nt : r.atexit_nesting)
        if (nt == tag) {
            // a callback may itself register a callback: it belongs to this thread's chain like any other
            int ntag = (int)r.atexit_registered.size() + 1;
            r.atexit_registered.push_back(ntag);
            r.atexit_pending.push_back(ntag);
            sim::probe("at_exit_registered_from_at_exit_callback");
            r.registering = true;
            if (aws_thread_current_at_exit(atexit_cb, (void *)(intptr_t)(id * 1000 + ntag)))
                sim::violation("c20:atexit", "aws_thread_current_at_exit failed inside an at-exit callback");
            r.registering = false;
        }
    r.atexit_ran++;
    c.hist = sim::mix64(c.hist, (uint64_t)code);
    sim::yield();
}

// ---- a logger that keeps per-thread state and has it freed by an at-exit callback (what a real logger with thread-local buffers
// does): whenever the library logs on a launched thread, the first few calls register one more at-exit callback on that thread.
// Dormant unless the thread code logs. A registration that is accepted must run like any other.
static std::map<int, int> g_logger_regs; // per thread id: registrations made by the logger
int tl_log(struct aws_logger *, enum aws_log_level, aws_log_subject_t, const char *, ...) {
    Ctx *c = g;
    if (!c || !sim::active()) return AWS_OP_SUCCESS;
    // a logger may look at the library's thread bookkeeping (e.g. to print the number of managed threads with every line); the query
    // takes the managed-thread lock, so a library that logs while holding that lock deadlocks against itself
    (void)aws_thread_get_managed_thread_count();
    auto it = c->by_tid.find(sim::self());
    if (it == c->by_tid.end()) return AWS_OP_SUCCESS; // not a launched thread (or not started yet)
    int id = it->second;
    if (g_logger_regs[id] >= 3) return AWS_OP_SUCCESS;
    g_logger_regs[id]++;
    TRec &r = c->t[id];
    int tag = (int)r.atexit_registered.size() + 1;
    sim::probe("thread_code_logged_and_the_logger_registered_an_at_exit_callback");
    if (aws_thread_current_at_exit(atexit_cb, (void *)(intptr_t)(id * 1000 + tag)) == AWS_OP_SUCCESS) {
        // accepted: it belongs to the chain. It goes to the top of the stack - unless the chain is being run right now, in which
        // case it is the next to run as well (same rule as for callbacks registered by callbacks)
        r.atexit_registered.push_back(tag);
        r.atexit_pending.push_back(tag);
    }
    return AWS_OP_SUCCESS;
}
enum aws_log_level tl_level(struct aws_logger *, aws_log_subject_t) { return AWS_LL_TRACE; }
void tl_clean_up(struct aws_logger *) {}
int tl_set_level(struct aws_logger *, enum aws_log_level) { return AWS_OP_SUCCESS; }
struct aws_logger_vtable g_tl_vtable = {tl_log, tl_level, tl_clean_up, tl_set_level};
struct aws_logger g_thread_logger = {&g_tl_vtable, nullptr, nullptr};

// ---- an allocator with per-thread state that is flushed at thread exit: the first allocations it serves on a launched thread register
// an at-exit callback on that thread - possibly in the middle of a library call that is itself registering one
static std::map<int, int> g_alloc_regs;
static bool g_in_alloc_hook = false;
void alloc_hook(size_t, void *ud) {
    Ctx *c = (Ctx *)ud;
    if (!c || !sim::active() || g_in_alloc_hook) return;
    auto it = c->by_tid.find(sim::self());
    if (it == c->by_tid.end()) return;
    int id = it->second;
    if (g_alloc_regs[id] >= 2) return;
    g_alloc_regs[id]++;
    g_in_alloc_hook = true;
    TRec &r = c->t[id];
    int tag = (int)r.atexit_registered.size() + 1;
    sim::probe("allocator_registered_an_at_exit_callback_while_serving_a_request");
    // the record for this registration is pushed before the outer registration (if one is in progress) is linked in: the model mirrors
    // the order in which the chain is built - whoever completes its push first is deeper in the stack
    if (aws_thread_current_at_exit(atexit_cb, (void *)(intptr_t)(id * 1000 + tag)) == AWS_OP_SUCCESS) {
        r.atexit_registered.push_back(tag);
        if (r.registering && !r.atexit_pending.empty()) r.atexit_pending.insert(r.atexit_pending.end() - 1, tag); // completed before the outer one is linked in
        else r.atexit_pending.push_back(tag);
    }
    g_in_alloc_hook = false;
}

// the same allocator flushing per-thread state from its release path: whichever launched thread releases a block (its own records, or the
// wrapper of a predecessor it joins on its way out) may find the allocator registering an at-exit callback on it. A registration that
// is ACCEPTED must run on that thread before the thread is reported joined; the library is free to refuse it once the chain has been run.
static std::map<int, int> g_rel_regs;
void release_hook(void *ud) {
    Ctx *c = (Ctx *)ud;
    if (!c || !sim::active() || g_in_alloc_hook) return;
    auto it = c->by_tid.find(sim::self());
    if (it == c->by_tid.end()) return;
    int id = it->second;
    TRec &r = c->t[id];
    if (!r.fn_done || g_rel_regs[id] >= 2) return; // only on the thread's way out (during the body the acquire-side hook covers it)
    g_rel_regs[id]++;
    g_in_alloc_hook = true;
    int tag = (int)r.atexit_registered.size() + 1;
    if (aws_thread_current_at_exit(atexit_cb, (void *)(intptr_t)(id * 1000 + tag)) == AWS_OP_SUCCESS) {
        r.atexit_registered.push_back(tag);
        r.atexit_floating.insert(tag);
        sim::probe("allocator_release_path_registered_an_at_exit_callback_after_the_thread_function");
    } else {
        sim::probe("at_exit_registration_refused_after_the_chain_was_run");
    }
    g_in_alloc_hook = false;
}

struct Arg { Ctx *c; int id; uint64_t magic; };
static Arg g_args[MAXT + 1];

// a thread launched with options that leave stack_size at 0 is promised at least 1 MiB of stack even where the system default is
// smaller (posix/thread.c raises it): a body may therefore use a few hundred KiB
__attribute__((noinline)) static unsigned deep_frame(int id) {
    volatile unsigned char big[300 * 1024];
    unsigned acc = 0;
    for (size_t i = 0; i < sizeof big; i += 1024) { big[i] = (unsigned char)((i >> 10) + (unsigned)id); acc += big[i]; }
    return acc;
}
static volatile unsigned g_deep_acc;

void thread_fn(void *p) {
    Arg *a = (Arg *)p;
    Ctx &c = *a->c;
    if (a->magic != 0xC20C20 + (uint64_t)a->id) sim::violation("c20:arg", "thread function received a wrong argument");
    TRec &r = c.t[a->id];
    r.fn_runs++;
    if (r.fn_runs > 1) sim::violation("c20:ran-twice", "thread %d: function invoked twice", a->id);
    if (r.fault > 0 && !(r.opt == 3 || r.opt == 4)) sim::violation("c20:ran-after-failed-launch", "thread %d ran although pthread_create failed", a->id);
    r.sim_tid = sim::self();
    c.by_tid[r.sim_tid] = a->id;
    sim::note(sim::PK_HARNESS, nullptr, 2000 + a->id);
    c.hist = sim::mix64(c.hist, (uint64_t)a->id * 7 + 1);
    if (c.small_default_stack && ((r.opt >= 1 && r.opt <= 4) || r.opt == 6)) { g_deep_acc += deep_frame(a->id); sim::probe("body_used_300KiB_of_stack_on_small_default_system"); }
    body(c, a->id);
    r.fn_done = true;
    c.hist = sim::mix64(c.hist, (uint64_t)a->id * 7 + 2);
}

void do_launch(Ctx &c, int launcher, int id) {
    TRec &r = c.t[id];
    if (!r.defined || r.launch_invoked) return;
    r.launch_invoked = true;
    r.launcher = launcher;
    struct aws_thread_options o = *aws_default_thread_options();
    const struct aws_thread_options *po = &o;
    if (r.managed) o.join_strategy = AWS_TJS_MANAGED;
    switch (r.opt) {
        case 0: if (!r.managed) po = nullptr; break;
        case 2: o.name = aws_byte_cursor_from_c_str("dsim-worker"); break;
        case 3: o.cpu_id = 2; break;
        case 4: o.cpu_id = 1; o.name = aws_byte_cursor_from_c_str("dsim-pinned"); break;
        case 5: o.stack_size = (size_t)PTHREAD_STACK_MIN + 4096; break;
        case 6: o.stack_size = 1 << 20; break;
    }
    bool has_cpu = po && o.cpu_id >= 0;
    if (r.fault > 0) sim::set_create_fail(1, r.fault);
    if (r.fault == -1 && has_cpu) sim::set_affinity_fail(1, EINVAL);
    // attribute calls failing: only armed when the launch will actually make that call
    int attr_err = 0;
    if (r.fault == -2 && po) { sim::set_attr_fail(1, ENOMEM); attr_err = ENOMEM; }
    if (r.fault == -3 && po && o.stack_size > (size_t)PTHREAD_STACK_MIN) { sim::set_attr_fail(2, EINVAL); attr_err = EINVAL; }
    if (r.fault == -4 && po && o.stack_size == 0) { sim::set_attr_fail(3, EINVAL); attr_err = EINVAL; }
    g_args[id] = Arg{&c, id, 0xC20C20 + (uint64_t)id};
    aws_thread_init(&r.thread, c.alloc);
    size_t count_before = aws_thread_get_managed_thread_count();
    (void)count_before;
    sim::note(sim::PK_HARNESS, nullptr, 1000 + id);
    int rc = aws_thread_launch(&r.thread, thread_fn, &g_args[id], po);
    int err = rc ? aws_last_error() : 0;
    r.launch_returned = true;
    c.ops_done++;
    bool expect_fail = (r.fault > 0 || attr_err) && !has_cpu; // with a cpu_id the library retries once without pinning
    int fail_errno = r.fault > 0 ? r.fault : attr_err;
    if (rc == AWS_OP_SUCCESS) {
        if (expect_fail) sim::violation("c20:launch", "thread %d: pthread_create failed with errno %d but aws_thread_launch reported success", id, r.fault);
        r.launched_ok = true;
        if ((r.fault > 0 || r.fault == -1 || attr_err) && has_cpu) sim::probe("launch_retried_without_cpu_pin");
        enum aws_thread_detach_state ds = aws_thread_get_detach_state(&r.thread);
        if (r.managed && ds != AWS_THREAD_MANAGED) sim::violation("c20:launch", "managed thread %d has detach state %d", id, (int)ds);
        if (!r.managed && ds != AWS_THREAD_JOINABLE) sim::violation("c20:launch", "joinable thread %d has detach state %d", id, (int)ds);
    } else {
        if (!expect_fail) sim::violation("c20:launch", "thread %d: aws_thread_launch failed (error %d) without an injected fault that explains it", id, err);
        int want = fail_errno == EINVAL ? AWS_ERROR_THREAD_INVALID_SETTINGS
                   : fail_errno == EAGAIN ? AWS_ERROR_THREAD_INSUFFICIENT_RESOURCE
                   : fail_errno == EPERM ? AWS_ERROR_THREAD_NO_PERMISSIONS
                   : fail_errno == ENOMEM ? AWS_ERROR_OOM : AWS_ERROR_UNKNOWN;
        if (err != want) sim::violation("c20:launch-error-code", "thread %d: errno %d from a failing pthread call mapped to aws error %d, documented mapping is %d", id, fail_errno, err, want);
        sim::probe("launch_failed");
    }
}

void do_join(Ctx &c, int id) {
    TRec &r = c.t[id];
    if (!r.launched_ok || r.managed || r.joined_by_api) return;
    r.joined_by_api = true;
    sim::note(sim::PK_HARNESS, nullptr, 1100 + id);
    if (!r.fn_done) sim::probe("join_before_thread_finished");
    int rc = aws_thread_join(&r.thread);
    c.ops_done++;
    if (rc) sim::violation("c20:join", "aws_thread_join(thread %d) failed with error %d", id, aws_last_error());
    if (r.fn_runs != 1 || !r.fn_done) sim::violation("c20:join-early", "aws_thread_join(thread %d) returned before the thread function completed", id);
    if ((size_t)r.atexit_ran != r.atexit_registered.size())
        sim::violation("c20:join-early", "aws_thread_join(thread %d) returned before all at-exit callbacks ran (%d of %zu)", id, r.atexit_ran, r.atexit_registered.size());
    if (r.sim_tid < 0 || !sim::thread_done(r.sim_tid)) sim::violation("c20:join-early", "aws_thread_join(thread %d) returned but the thread has not exited", id);
    aws_thread_clean_up(&r.thread);
}

void do_detach(Ctx &c, int id) {
    TRec &r = c.t[id];
    if (!r.launched_ok || r.managed || r.joined_by_api) return;
    r.joined_by_api = true;
    r.detached = true;
    sim::note(sim::PK_HARNESS, nullptr, 1150 + id);
    sim::probe("joinable_thread_detached_by_clean_up");
    aws_thread_clean_up(&r.thread); // "If you do not join before calling clean_up, the thread will become detached"
    c.ops_done++;
}

bool launcher_chain_managed_or_done(Ctx &c, int id, std::vector<char> &in_s) {
    (void)c; (void)id; (void)in_s;
    return true;
}

void do_join_all(Ctx &c, bool final_call) {
    // S = managed threads whose launch has returned successfully before this call, closed under "launched by a member of S"
    std::vector<char> in_s(MAXT + 1, 0);
    for (int i = 1; i <= MAXT; i++) if (c.t[i].managed && c.t[i].launched_ok) in_s[i] = 1;
    bool manual_launchers_alive = false;
    for (int i = 1; i <= MAXT; i++)
        if (c.t[i].defined && !c.t[i].managed && c.t[i].launched_ok && (!c.t[i].joined_by_api || (c.t[i].detached && !c.t[i].fn_done))) manual_launchers_alive = true;
    // (a thread detached by clean_up keeps running on its own and may launch managed threads while or after this call runs, exactly like a
    // joinable thread that has not been joined yet: "count is zero / a second call returns at once" is only owed once it has finished)
    int me = sim::self();
    c.ja_reads[me].clear();
    std::vector<uint64_t> &my_reads = c.ja_reads[me];
    uint64_t timeout_at_call = c.timeout_ns;
    uint64_t seq_at_call = sim::seq();
    if (me != c.main_tid) sim::probe("join_all_called_from_a_joinable_thread");
    sim::note(sim::PK_HARNESS, nullptr, 1200);
    bool any_running = false;
    for (int i = 1; i <= MAXT; i++) if (in_s[i] && !c.t[i].fn_done) any_running = true;
    if (any_running) sim::probe("join_all_while_managed_threads_running");
    int rc = aws_thread_join_all_managed();
    std::vector<uint64_t> reads = my_reads;
    c.ja_reads.erase(me);
    c.ops_done++;
    if (rc != AWS_OP_SUCCESS) {
        // the timeout the call worked with is whatever was set when it read the value: the one in force at the call or any value set while it ran
        // (the library's value changes somewhere inside each set call, so a set that overlaps this call contributes both its values)
        uint64_t tmo = timeout_at_call ? timeout_at_call : c.timeout_ns;
        for (auto &ts : c.timeout_sets)
            if (ts.e >= seq_at_call) {
                for (uint64_t v : {ts.old_v, ts.new_v}) if (v && (tmo == 0 || v < tmo)) tmo = v;
            }
        if (tmo == 0) sim::violation("c20:join-all", "unbounded aws_thread_join_all_managed returned an error");
        bool reached = false;
        if (!reads.empty()) {
            uint64_t dl = reads[0] + tmo;
            for (uint64_t v : reads) if (v >= dl) reached = true;
        }
        if (!reached) sim::violation("c20:join-all-timeout", "join_all_managed reported a timeout although the wall clock never reached its deadline");
        sim::probe("join_all_timed_out");
        return;
    }
    for (auto &e : c.exts)
        if (e.inc_done_seq < seq_at_call && !e.dec_invoked)
            sim::violation("c20:join-all-early", "join_all_managed returned while a participant that incremented the unjoined count before the call has not decremented it yet");
    // closure: managed threads launched (at any time) by members of S
    bool changed = true;
    while (changed) {
        changed = false;
        for (int i = 1; i <= MAXT; i++)
            if (!in_s[i] && c.t[i].managed && c.t[i].launched_ok && c.t[i].launcher > 0 && in_s[c.t[i].launcher]) { in_s[i] = 1; changed = true; }
    }
    for (int i = 1; i <= MAXT; i++) {
        if (!in_s[i]) continue;
        TRec &r = c.t[i];
        if (!r.fn_done) sim::violation("c20:join-all-early", "join_all_managed returned while managed thread %d is still running its function", i);
        if ((size_t)r.atexit_ran != r.atexit_registered.size()) sim::violation("c20:join-all-early", "join_all_managed returned before the at-exit callbacks of managed thread %d ran", i);
        if (r.os_joins != 1) sim::violation("c20:not-joined", "join_all_managed returned but managed thread %d has been joined %d times at OS level", i, r.os_joins);
        if (!sim::thread_done(r.sim_tid)) sim::violation("c20:join-all-early", "join_all_managed returned but managed thread %d has not exited", i);
    }
    if ((me == c.main_tid && !manual_launchers_alive) || final_call) {
        size_t n = aws_thread_get_managed_thread_count();
        if (n != 0) sim::violation("c20:count", "join_all_managed returned but the managed thread count is %zu", n);
        if (c.timeout_ns == 0) { // with a timeout armed a further call may legitimately report that the deadline has passed
            uint64_t s0 = sim::steps();
            if (aws_thread_join_all_managed() != AWS_OP_SUCCESS) sim::violation("c20:join-all", "second join_all_managed failed");
            if (sim::steps() - s0 > 200) sim::violation("c20:join-all", "second join_all_managed did not return at once");
        }
    }
}

// aws_thread_call_once: the function runs at most once per flag, on the calling thread, and has completed when any call returns;
// an at-exit callback it registers belongs to the (launched) thread it ran on like any other
static aws_thread_once g_once[3];
static int g_once_runs[3];
static bool g_once_done[3];
struct OnceCall { Ctx *c; int id; int tid; int flag; bool reg; };

void once_fn(void *ud) {
    OnceCall *oc = (OnceCall *)ud;
    Ctx &c = *oc->c;
    sim::note(sim::PK_HARNESS, nullptr, 5000 + oc->flag);
    if (++g_once_runs[oc->flag] > 1) sim::violation("c20:once-twice", "call_once function of flag %d ran twice", oc->flag);
    if (sim::self() != oc->tid) sim::violation("c20:once-thread", "call_once function ran on T%d, not on the calling thread T%d", sim::self(), oc->tid);
    sim::yield(); // others may arrive while the function is in progress
    if (oc->reg) {
        if (oc->id > 0) {
            TRec &r = c.t[oc->id];
            int tag = (int)r.atexit_registered.size() + 1;
            r.atexit_registered.push_back(tag);
            r.atexit_pending.push_back(tag);
            sim::probe("at_exit_registered_from_call_once_function");
            r.registering = true;
            if (aws_thread_current_at_exit(atexit_cb, (void *)(intptr_t)(oc->id * 1000 + tag)))
                sim::violation("c20:atexit", "aws_thread_current_at_exit failed inside a call_once function on an aws thread");
            r.registering = false;
        } else {
            sim::probe("at_exit_attempted_from_call_once_function_on_main");
            if (aws_thread_current_at_exit(atexit_cb, (void *)(intptr_t)999998) == AWS_OP_SUCCESS)
                sim::violation("c20:atexit", "aws_thread_current_at_exit succeeded inside a call_once function on a thread that was not launched through aws_thread_launch");
        }
    }
    c.hist = sim::mix64(c.hist, 5000 + (uint64_t)oc->flag * 16 + (uint64_t)oc->id);
    g_once_done[oc->flag] = true;
}

void body(Ctx &c, int id) {
    for (const sim::Op &op : c.plan->ops) {
        if (op.thr != id) continue;
        if (c.plan->get("poison_errors", 0)) hx::poison_errors(c.plan->seed, sim::seq());
        switch (op.kind) {
            case OP_YIELD: sim::yield(); break;
            case OP_SLEEP: sim::sleep_ns((uint64_t)op.a); break;
            case OP_LAUNCH: do_launch(c, id, (int)(op.a % MAXT) + 1); break;
            case OP_JOIN: do_join(c, (int)(op.a % MAXT) + 1); break;
            case OP_DETACH: if (id == 0) do_detach(c, (int)(op.a % MAXT) + 1); break;
            case OP_ATEXIT:
                if (id > 0) {
                    TRec &r = c.t[id];
                    int tag = (int)r.atexit_registered.size() + 1;
                    // op.b: the very same (function, user data) pair is registered several times in a row - every registration counts
                    int times = 1 + (int)(op.b % 4);
                    if (times > 1) sim::probe("identical_at_exit_registration_repeated");
                    if (op.a) r.atexit_nesting.push_back(tag);
                    for (int rep = 0; rep < times; rep++) {
                        r.atexit_registered.push_back(tag);
                        r.atexit_pending.push_back(tag);
                        r.registering = true;
                        if (aws_thread_current_at_exit(atexit_cb, (void *)(intptr_t)(id * 1000 + tag))) sim::violation("c20:atexit", "aws_thread_current_at_exit failed on an aws thread");
                        r.registering = false;
                    }
                    c.ops_done++;
                }
                break;
            case OP_ATEXIT_MAIN:
                if (id == 0) {
                    int rc = aws_thread_current_at_exit(atexit_cb, (void *)(intptr_t)999999);
                    if (rc == AWS_OP_SUCCESS) sim::violation("c20:atexit", "aws_thread_current_at_exit succeeded on a thread that was not launched through aws_thread_launch");
                }
                break;
            case OP_JOIN_ALL: if (id == 0 || !c.t[id].managed) do_join_all(c, false); break; // legal from the main thread or any non-managed thread
            case OP_SET_TIMEOUT:
                if (id == 0) {
                    // other threads may be inside join_all right now and read the value at any moment around this call
                    c.timeout_sets.push_back(Ctx::TSet{sim::seq(), UINT64_MAX, c.timeout_ns, (uint64_t)op.a});
                    c.timeout_ns = (uint64_t)op.a;
                    aws_thread_set_managed_join_timeout_ns(c.timeout_ns);
                    c.timeout_sets.back().e = sim::seq();
                }
                break;
            case OP_COUNT_QUERY: (void)aws_thread_get_managed_thread_count(); break;
            case OP_SELF_JOIN: {
                TRec &me = c.t[id];
                // the handle is the launcher's object: only once aws_thread_launch has returned, and not after the owner gave it up
                if (id == 0 || me.managed || !me.launch_returned || me.detached) { sim::probe("self_join_skipped"); break; }
                c.self_join_in_progress++;
                int rc = aws_thread_join(&me.thread);
                int err = rc ? aws_last_error() : 0;
                c.self_join_in_progress--;
                sim::probe("self_join_attempted");
                if (rc == AWS_OP_SUCCESS) sim::violation("c20:self-join", "thread %d: aws_thread_join on its own handle reported success", id);
                if (err != AWS_ERROR_THREAD_DEADLOCK_DETECTED) sim::violation("c20:self-join", "thread %d: joining itself gave error %d, documented is AWS_ERROR_THREAD_DEADLOCK_DETECTED", id, err);
                break;
            }
            case OP_LIB_REINIT:
                // a second library lifetime in the same process: clean-up (which joins the managed threads, within the timeout if one
                // is set) followed by init. Managed threads that outlive a timed-out clean-up are still owed their join afterwards.
                if (id == 0) {
                    bool running = false;
                    for (int i = 1; i <= MAXT; i++) if (c.t[i].managed && c.t[i].launched_ok && !sim::thread_done(c.t[i].sim_tid >= 0 ? c.t[i].sim_tid : 0)) running = true;
                    sim::probe(running ? "library_reinitialised_while_managed_threads_alive" : "library_reinitialised");
                    sim::note(sim::PK_HARNESS, nullptr, 1300);
                    aws_common_library_clean_up();
                    aws_common_library_init(aws_default_allocator());
                    c.ops_done++;
                }
                break;
            case OP_EXT_PARTICIPATE:
                if (id == 0 || !c.t[id].managed) { // "event loop threads which participate by inc/dec": join-all waits for them too
                    aws_thread_increment_unjoined_count();
                    c.exts.push_back(Ctx::Ext{sim::seq(), false});
                    Ctx::Ext &e = c.exts.back();
                    sim::probe("external_participant_in_the_unjoined_count");
                    if (op.a) sim::sleep_ns((uint64_t)op.a); else sim::yield();
                    e.dec_invoked = true;
                    aws_thread_decrement_unjoined_count();
                    c.ops_done++;
                }
                break;
            case OP_CALL_ONCE: {
                OnceCall oc{&c, id, sim::self(), (int)(op.a % 3), op.b != 0};
                aws_thread_call_once(&g_once[oc.flag], once_fn, &oc);
                if (!g_once_done[oc.flag]) sim::violation("c20:once-early", "aws_thread_call_once(flag %d) returned before the function had completed", oc.flag);
                c.ops_done++;
                break;
            }
        }
    }
    // a thread that launched joinable threads joins them before it returns
    for (int i = 1; i <= MAXT; i++)
        if (c.t[i].launcher == id && !c.t[i].managed && c.t[i].launched_ok && !c.t[i].joined_by_api) do_join(c, i);
}

void observer(const sim::Event &ev, void *ud) {
    Ctx &c = *(Ctx *)ud;
    if (ev.kind == sim::PK_CLOCK_READ) { auto it = c.ja_reads.find(ev.tid); if (it != c.ja_reads.end()) it->second.push_back((uint64_t)ev.result); }
    if (ev.kind == sim::PK_THREAD_JOIN && ev.result != 0) {
        if (ev.result == -EDEADLK && c.self_join_in_progress) return; // OP_SELF_JOIN: the expected refusal
        if (ev.result < 0)
            sim::violation("c20:bad-join", "an OS-level join by T%d failed with errno %lld (self-join, double join or unknown thread)", ev.tid, (long long)-ev.result);
        auto it = c.by_tid.find((int)ev.result);
        if (it != c.by_tid.end()) {
            TRec &r = c.t[it->second];
            r.os_joins++;
            if (r.os_joins > 1) sim::violation("c20:double-join", "thread %d joined twice at OS level", it->second);
            if (ev.tid == r.sim_tid) sim::violation("c20:self-join", "thread %d joined itself", it->second);
            if (r.managed) {
                if (!r.fn_done || (size_t)r.atexit_ran != r.atexit_registered.size())
                    sim::violation("c20:join-order", "managed thread %d was joined before its function and at-exit callbacks completed", it->second);
                if (c.by_tid.count(ev.tid)) sim::probe("managed_thread_lazily_joined_by_successor");
                else sim::probe("managed_thread_joined_by_join_all");
            }
        }
    }
}

RunInfo run(const sim::Plan &plan) {
    simalloc::Config ac;
    ac.seed = plan.seed;
    ac.has_realloc = plan.get("alloc_realloc", 1) != 0;
    ac.has_calloc = plan.get("alloc_calloc", 1) != 0;
    ac.yield_points = plan.get("alloc_yield", 0) != 0;
    Ctx c;
    g = &c;
    c.plan = &plan;
    c.alloc = simalloc::create(ac);
    for (const sim::Op &op : plan.ops)
        if (op.kind == OP_SPEC) {
            int id = (int)(op.a % MAXT) + 1;
            TRec &r = c.t[id];
            r.id = id; r.defined = true; r.managed = op.b != 0; r.opt = (int)(op.c % 7); r.fault = (int)op.d;
            if (r.managed && r.opt == 0) r.opt = 1;
        }
    for (int k = 0; k < 3; k++) { aws_thread_once init = AWS_THREAD_ONCE_STATIC_INIT; g_once[k] = init; g_once_runs[k] = 0; g_once_done[k] = false; }
    sim::begin(plan);
    sim::set_observer(observer, &c);
    g_logger_regs.clear();
    g_alloc_regs.clear();
    g_rel_regs.clear();
    aws_logger_set(&g_thread_logger);
    if (plan.get("alloc_registers_atexit", 0)) simalloc::set_acquire_hook(alloc_hook, &c);
    if (plan.get("alloc_release_registers_atexit", 0)) simalloc::set_prerelease_hook(release_hook, &c);
    c.small_default_stack = plan.get("small_default_stack", 0) != 0;
    if (c.small_default_stack) sim::set_default_stack(128 << 10);
    c.main_tid = sim::self();
    if (aws_thread_get_managed_thread_count() != 0) sim::violation("c20:harness", "managed thread count not zero at start of run");
    body(c, 0);
    // end of run: join what is joinable, then wait for all managed threads without a timeout
    for (int i = 1; i <= MAXT; i++)
        if (c.t[i].launcher == 0 && !c.t[i].managed) do_join(c, i);
    // detached threads finish on their own (and may still launch managed threads): wait for them before the final join-all (bounded by the run's step budget)
    for (int i = 1; i <= MAXT; i++)
        if (c.t[i].detached)
            while (c.t[i].sim_tid < 0 || !sim::thread_done(c.t[i].sim_tid)) sim::sleep_ns(1000000);
    c.timeout_ns = 0;
    aws_thread_set_managed_join_timeout_ns(0);
    do_join_all(c, true);
    for (int i = 1; i <= MAXT; i++) {
        TRec &r = c.t[i];
        if (!r.defined || !r.launch_invoked) continue;
        if (r.launched_ok) {
            if (r.fn_runs != 1) sim::violation("c20:not-run", "thread %d was launched successfully but its function ran %d times", i, r.fn_runs);
            if ((size_t)r.atexit_ran != r.atexit_registered.size()) sim::violation("c20:atexit-lost", "thread %d: %zu at-exit callbacks registered, %d ran", i, r.atexit_registered.size(), r.atexit_ran);
            if (r.os_joins != (r.detached ? 0 : 1)) sim::violation("c20:not-joined", "thread %d has been joined %d times at OS level by the end of the run", i, r.os_joins);
        } else if (r.fn_runs) sim::violation("c20:ran-after-failed-launch", "thread %d ran although its launch failed", i);
    }
    if (sim::unjoined_threads()) sim::violation("c20:not-joined", "%d simulated thread(s) were never joined or detached", sim::unjoined_threads());
    if (sim::mutex_held_any()) sim::violation("c20:lock-held", "a mutex is still locked at the end of the run");
    aws_logger_set(nullptr);
    simalloc::expect_balanced("end of run (wrappers, names, at-exit records)");
    RunInfo ri;
    ri.st = sim::end();
    ri.ops_done = c.ops_done;
    ri.case_fp = sim::mix64(ri.st.sync_fp, c.hist);
    int launched = 0;
    for (int i = 1; i <= MAXT; i++) launched += c.t[i].launched_ok;
    ri.nontrivial = launched >= 2 && ri.st.preemptions >= 1 && ri.st.shared_objs >= 1;
    g = nullptr;
    return ri;
}

void gen(uint64_t seed, int tier, sim::Plan &p) {
    sim::Rng r(sim::mix64(seed, 0xC20));
    p = sim::Plan();
    p.prop = "C20";
    p.seed = seed;
    hgen::sched_config(r, p, true, true, true, true, -1);
    p.cfg["alloc_realloc"] = r.chance(0.8);
    p.cfg["alloc_calloc"] = r.chance(0.8);
    p.cfg["alloc_yield"] = r.chance(0.3);
    p.cfg["max_join_all_callers"] = r.pick(std::vector<int64_t>{1, 1, 2, 3}); // joinable threads that call join-all besides main
    int nmanual = (int)r.range(0, 3), nmanaged = (int)r.range(0, tier ? 6 : 4);
    if (nmanual + nmanaged == 0) nmanaged = 1;
    bool faults = p.get("faults") != 0;
    std::vector<int> ids;
    int id = 1;
    std::vector<int> managed_ids, manual_ids;
    for (int i = 0; i < nmanual; i++, id++) manual_ids.push_back(id);
    for (int i = 0; i < nmanaged; i++, id++) managed_ids.push_back(id);
    int total = id - 1;
    for (int i = 1; i <= total; i++) {
        sim::Op s;
        s.thr = -1; s.kind = OP_SPEC; s.a = i - 1;
        s.b = i > nmanual;
        s.c = r.pick(std::vector<int64_t>{0, 0, 1, 2, 3, 4, 5, 6});
        s.d = 0;
        if (faults && r.chance(0.12)) s.d = r.pick(std::vector<int64_t>{EAGAIN, ENOMEM, EPERM, EINVAL, -1, -2, -3, -4});
        p.ops.push_back(s);
    }
    // who launches whom: main launches some; threads launch some of the later ones
    std::vector<int> launcher(total + 1, 0);
    for (int i = 2; i <= total; i++) if (r.chance(0.35)) launcher[i] = (int)r.range(1, i - 1);
    int extra_callers = 0;
    const int max_extra_callers = (int)p.get("max_join_all_callers", 1);
    auto body_ops = [&](int t) {
        int n = (int)r.range(0, 5);
        if (r.chance(0.01)) { // many at-exit callbacks on one thread
            int m = (int)r.range(30, 80);
            for (int k = 0; k < m; k++) { sim::Op o; o.thr = t; o.kind = OP_ATEXIT; o.a = r.chance(0.05); p.ops.push_back(o); }
        }
        for (int k = 0; k < n; k++) {
            sim::Op o; o.thr = t;
            uint64_t w = r.below(10);
            if (w < 3) { o.kind = OP_ATEXIT; o.a = r.chance(0.2); o.b = r.chance(0.15) ? r.range(1, 3) : 0; }
            else if (w < 6) { o.kind = OP_YIELD; }
            else if (w < 9) { o.kind = OP_SLEEP; o.a = r.pick(std::vector<int64_t>{1000, 100000, 1000000, 1000000, 50000000, 1000000000}); }
            else if (r.chance(0.5)) { o.kind = OP_COUNT_QUERY; }
            else if (r.chance(0.7) || t > nmanual) { o.kind = OP_CALL_ONCE; o.a = r.range(0, 2); o.b = r.chance(0.6); }
            else { o.kind = OP_EXT_PARTICIPATE; o.a = r.pick(std::vector<int64_t>{0, 1000, 1000000, 50000000}); }
            p.ops.push_back(o);
        }
        if (t <= nmanual && r.chance(0.06)) { sim::Op o; o.thr = t; o.kind = OP_SELF_JOIN; p.ops.push_back(o); if (r.chance(0.5)) { sim::Op s; s.thr = t; s.kind = OP_SLEEP; s.a = r.pick(std::vector<int64_t>{1000, 1000000, 50000000}); p.ops.push_back(s); } }
        if (t <= nmanual && extra_callers < max_extra_callers && r.chance(0.3)) { extra_callers++; sim::Op j; j.thr = t; j.kind = OP_JOIN_ALL; p.ops.push_back(j); } // concurrent join-all callers
    };
    for (int t = 1; t <= total; t++) {
        body_ops(t);
        for (int i = t + 1; i <= total; i++) if (launcher[i] == t) { sim::Op o; o.thr = t; o.kind = OP_LAUNCH; o.a = i - 1; p.ops.push_back(o); body_ops(t); }
    }
    // main
    if (r.chance(0.1)) { sim::Op o; o.thr = 0; o.kind = OP_ATEXIT_MAIN; p.ops.push_back(o); }
    if (r.chance(0.08)) { sim::Op o; o.thr = 0; o.kind = OP_CALL_ONCE; o.a = r.range(0, 2); o.b = r.chance(0.5); p.ops.push_back(o); }
    std::vector<int> mine;
    for (int i = 1; i <= total; i++) if (launcher[i] == 0) mine.push_back(i);
    bool join_all_placed = false;
    for (size_t k = 0; k < mine.size(); k++) {
        sim::Op o; o.thr = 0; o.kind = OP_LAUNCH; o.a = mine[k] - 1; p.ops.push_back(o);
        if (r.chance(0.2)) { sim::Op s; s.thr = 0; s.kind = r.chance(0.5) ? OP_YIELD : OP_SLEEP; s.a = r.pick(std::vector<int64_t>{1000, 1000000, 1000000000}); p.ops.push_back(s); }
        if (r.chance(0.12)) {
            if (r.chance(0.3)) { sim::Op t; t.thr = 0; t.kind = OP_SET_TIMEOUT; t.a = r.pick(std::vector<int64_t>{1, 1000000, 500000000, 5000000000ll, /* 'practically for ever': more than INT64_MAX ns */ (int64_t)(0x8000000000000000ull + 3600000000000ull), (int64_t)10000000000000000000ull}); p.ops.push_back(t); }
            sim::Op j; j.thr = 0; j.kind = OP_JOIN_ALL; p.ops.push_back(j);
            join_all_placed = true;
        }
        if (r.chance(0.04)) { // a second library lifetime starts while threads of the first may still be running
            if (r.chance(0.7)) { sim::Op t; t.thr = 0; t.kind = OP_SET_TIMEOUT; t.a = r.pick(std::vector<int64_t>{1, 1000, 1000000, 500000000}); p.ops.push_back(t); }
            sim::Op li; li.thr = 0; li.kind = OP_LIB_REINIT; p.ops.push_back(li);
            if (r.chance(0.5)) { sim::Op t; t.thr = 0; t.kind = OP_SET_TIMEOUT; t.a = 0; p.ops.push_back(t); }
        }
    }
    // joins of the manual threads in generated order, join_all before / between / after
    std::vector<int> order;
    for (int i : mine) if (i <= nmanual) order.push_back(i);
    for (size_t k = order.size(); k > 1; k--) std::swap(order[k - 1], order[r.below(k)]);
    for (int i : order) {
        if (r.chance(0.25)) {
            if (r.chance(0.3)) { sim::Op t; t.thr = 0; t.kind = OP_SET_TIMEOUT; t.a = r.pick(std::vector<int64_t>{0, 1000000, 5000000000ll, (int64_t)10000000000000000000ull}); p.ops.push_back(t); }
            sim::Op j; j.thr = 0; j.kind = OP_JOIN_ALL; p.ops.push_back(j);
            join_all_placed = true;
        }
        sim::Op o; o.thr = 0; o.kind = r.chance(0.15) ? OP_DETACH : OP_JOIN; o.a = i - 1; p.ops.push_back(o);
    }
    (void)join_all_placed;
    // the library re-loads its optional libnuma entry points when it is initialised again: threads that are launched with a cpu_id while
    // main is between clean-up and init would use the library during its tear-down - not generated
    bool has_reinit = false;
    for (auto &o : p.ops) if (o.kind == OP_LIB_REINIT) has_reinit = true;
    if (has_reinit) for (auto &o : p.ops) if (o.kind == OP_SPEC && (o.c % 7 == 3 || o.c % 7 == 4)) o.c = 1;
    // join_all_managed polls while one managed thread is left (documented): make a step cost enough virtual time
    // for sleeping threads to wake up within a reasonable number of polling iterations
    p.cfg["cpu_cost"] = r.pick(std::vector<int64_t>{1000, 10000, 100000});
    if (r.chance(0.2)) p.cfg["alloc_registers_atexit"] = 1;
    if (r.chance(0.2)) p.cfg["small_default_stack"] = 1;
    if (r.chance(0.15)) p.cfg["alloc_release_registers_atexit"] = 1;
    p.cfg["soft_budget"] = 30000;
    p.cfg["hard_budget"] = 3000000;
}

std::string op_text(const sim::Op &op) {
    char b[200];
    static const char *opt[] = {"NULL options", "default options", "name", "cpu_id=2", "name+cpu_id=1", "stack=MIN+4K", "stack=1MiB"};
    switch (op.kind) {
        case OP_SPEC:
            snprintf(b, sizeof b, "thread %lld: %s, %s%s", (long long)(op.a % MAXT) + 1, op.b ? "managed" : "joinable", opt[op.c % 7],
                     op.d > 0 ? " [pthread_create fails]" : op.d == -1 ? " [pthread_attr_setaffinity_np fails]" : op.d == -2 ? " [pthread_attr_init fails]"
                     : op.d == -3 ? " [pthread_attr_setstacksize fails]" : op.d == -4 ? " [pthread_attr_getstacksize fails]" : "");
            break;
        case OP_LAUNCH: snprintf(b, sizeof b, "thread %d: launch(thread %lld)", op.thr, (long long)(op.a % MAXT) + 1); break;
        case OP_JOIN: snprintf(b, sizeof b, "thread %d: aws_thread_join(thread %lld)", op.thr, (long long)(op.a % MAXT) + 1); break;
        case OP_DETACH: snprintf(b, sizeof b, "main: aws_thread_clean_up(thread %lld) without joining it (detach)", (long long)(op.a % MAXT) + 1); break;
        case OP_JOIN_ALL: snprintf(b, sizeof b, "thread %d: aws_thread_join_all_managed()", op.thr); break;
        case OP_SET_TIMEOUT: snprintf(b, sizeof b, "main: set managed join timeout %llu ns", (unsigned long long)op.a); break;
        case OP_SLEEP: snprintf(b, sizeof b, "thread %d: sleep(%lld ns virtual)", op.thr, (long long)op.a); break;
        case OP_YIELD: snprintf(b, sizeof b, "thread %d: yield", op.thr); break;
        case OP_ATEXIT: snprintf(b, sizeof b, "thread %d: aws_thread_current_at_exit(next tag)%s%s", op.thr, op.a ? " [its callback registers one more callback]" : "", op.b % 4 ? " [the identical registration is repeated]" : ""); break;
        case OP_ATEXIT_MAIN: snprintf(b, sizeof b, "main: aws_thread_current_at_exit (must be refused: not an aws thread)"); break;
        case OP_COUNT_QUERY: snprintf(b, sizeof b, "thread %d: aws_thread_get_managed_thread_count()", op.thr); break;
        case OP_SELF_JOIN: snprintf(b, sizeof b, "thread %d: aws_thread_join(its own handle) (must be refused: deadlock detected)", op.thr); break;
        case OP_EXT_PARTICIPATE: snprintf(b, sizeof b, "thread %d: aws_thread_increment_unjoined_count(); %lld ns; aws_thread_decrement_unjoined_count()", op.thr, (long long)op.a); break;
        case OP_LIB_REINIT: snprintf(b, sizeof b, "main: aws_common_library_clean_up(); aws_common_library_init()"); break;
        case OP_CALL_ONCE: snprintf(b, sizeof b, "thread %d: aws_thread_call_once(flag %lld)%s", op.thr, (long long)(op.a % 3), op.b ? " [the function registers an at-exit callback]" : ""); break;
        default: snprintf(b, sizeof b, "?");
    }
    return b;
}

} // namespace

extern const Harness H_C20 = {
    "C20", "threads run once, run their exit callbacks, and managed threads all get joined", gen, run, op_text,
    "Plans: 0-3 joinable and 0-6 managed threads with generated options (NULL, name, cpu_id, stack sizes), launched by main or by other "
    "threads (managed and joinable), bodies with yields, virtual sleeps, 0-4 at-exit registrations and (6%) a join of the thread's own handle; main joins the joinable threads in "
    "generated order and calls aws_thread_join_all_managed before, while and after managed threads finish, sometimes with a join timeout; "
    "faults: preemption at every lock/cond/create/join, spurious wake-ups, stalls, REALTIME steps, pthread_create failing with "
    "EAGAIN/ENOMEM/EPERM/EINVAL, pthread_attr_setaffinity_np failing (unpinned retry); in 20% of the plans the simulated system's default "
    "thread stack is 128 KiB (musl-like) and bodies of threads launched with options use a 300 KiB frame; allocator that registers at-exit callbacks from its "
    "acquire path (20%) or from its release path on a thread's way out (15%). Distinct = synchronisation-order fingerprint combined "
    "with the start/finish/callback history; non-trivial = at least two threads launched, shared sync objects, at least one preemption.",
    "source/posix/thread.c, thread_shared.c, posix/mutex.c, posix/condition_variable.c, condition_variable.c, posix/clock.c, linked_list, "
    "string.c, allocator.c (real)",
    "pthread create/join/detach/mutex/cond semantics, clocks (simulated); aws_allocator (simulated)"};
